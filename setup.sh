#!/bin/sh
# Offline build-cache warm-up: compiles the harness (normal and -race) against /repo's
# current tree so that the first check does not pay for the std/bleve build.
cd "$(dirname "$0")" && exec ./check --build
