#!/bin/bash
# usage: tools/try_seed.sh <seeded/<id> dir> [property ...]
# Applies the seeded change to /repo, runs the named checks (default: the property in meta.json),
# prints their verdicts, and restores /repo whatever happens.
set -u
dir=$(readlink -f "$1"); shift
props=("$@")
if [ ${#props[@]} -eq 0 ]; then props=($(python3 -c "import json,sys;print(json.load(open('$dir/meta.json'))['property'])")); fi
cd /repo || exit 2
if [ -n "$(git status --porcelain)" ]; then echo "/repo is not clean"; exit 2; fi
trap 'cd /repo && git checkout -q -- . && git clean -fdq -- . >/dev/null 2>&1; echo "[/repo restored]"' EXIT
git apply "$dir/patch.diff" || { echo "patch does not apply"; exit 2; }
cd /verif
for p in "${props[@]}"; do
  tier=${VERIF_TRY_TIER:-quick}
  out=$(VERIF_SEED=${VERIF_SEED:-1} ./check "$p" "$tier" 2>&1)
  rc=$?
  echo "== $p $tier rc=$rc: $(echo "$out" | grep -v 'rapid\] draw' | grep -m1 -E 'VIOLATION|^OK|INCONCLUSIVE')"
  if [ $rc -eq 1 ]; then echo "$out" | grep -v 'rapid\] draw' | grep -m3 -E 'failed after|c[0-9][0-9]_test.go:[0-9]+:' | cut -c1-600; fi
done
# evidence files were rewritten by the runs above: restore the committed ones
git -C /verif checkout -q -- evidence 2>/dev/null
rm -rf /verif/replays
