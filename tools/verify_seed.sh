#!/bin/bash
# usage: tools/verify_seed.sh <Cxx> <worktree> : confirms, in the scratch worktree, that the demo
# fails with the change and passes without it, and that the touched packages' tests pass.
set -u
id=$1; wt=$2; out=${SEED_OUT:-/tmp/seed-out}/$id
export GOFLAGS=-mod=mod GOPROXY=off
cd $wt || exit 2
pkg=$(python3 -c "import json;print(json.load(open('$out/meta.json'))['demo_pkg'])")
git checkout -q -- .
cp $out/zz_seeded_demo_test.go $wt/$pkg/ 2>/dev/null
echo "--- without the change:"; go test -count=1 -tags verif -run 'Seeded|seeded|Demo' ./$pkg/ 2>&1 | tail -3
git apply $out/patch.diff || { echo "patch does not apply"; exit 2; }
echo "--- with the change:"; go test -count=1 -tags verif -run 'Seeded|seeded|Demo' ./$pkg/ 2>&1 | tail -4
echo "--- build + existing tests of touched packages (+ root):"
go build ./... && go build -tags verif ./... && echo build ok
mv $wt/$pkg/zz_seeded_demo_test.go /tmp/zz_demo_$id.go
pkgs=$(git diff --name-only | xargs -n1 dirname | sort -u | sed 's#^#./#' | tr '\n' ' ')
go test -count=1 $pkgs . 2>&1 | tail -6
mv /tmp/zz_demo_$id.go $wt/$pkg/zz_seeded_demo_test.go
git diff --stat | tail -3
