#!/bin/bash
# usage: tools/par_matrix.sh <parallelism> [seed dirs...]
# Like seed_matrix.sh, but every run gets its own worktree of /repo (with the seeded change
# applied) and its own copy of /verif whose harness points at that worktree, so that several
# runs proceed in parallel and /repo itself is never touched.
par=$1; shift
cd /verif || exit 2
declare -A EXTRA=(
 [C05-merge-intro-offset-uses-live-count]="C01"
 [C02-boolean-advance-mustnot-lte]="C08"
 [C12-copyscheduled-dropped-at-one]="C14"
 [C13-memmerge-equiv-deleted]="C03"
 [C10-facet-merge-skips-total-zero-again]="C09"
 [C02-unadorned-1hit-at-or-after-lte]="C05 C08"
 [C05-unadorned-disjunction-scratch-reset-late]="C02"
)
seeds=("$@"); [ ${#seeds[@]} -eq 0 ] && seeds=($(ls seeded | grep -v MATRIX))
root=/tmp/pm; mkdir -p $root
run_one() {
  sd=$1; p=$2; n=$3
  wt=$root/wt-$n; vf=$root/verif-$n
  git -C /repo worktree add -q --detach $wt HEAD 2>/dev/null || return
  git -C $wt apply /verif/seeded/$sd/patch.diff || { echo "$sd | $p | patch does not apply"; git -C /repo worktree remove --force $wt; return; }
  mkdir -p $vf && rsync -a --exclude .build --exclude replays --exclude .git --exclude seeded /verif/ $vf/
  sed -i "s#=> /repo#=> $wt#" $vf/harness/go.mod
  sed -i "s#\"/repo/go.sum\"#\"$wt/go.sum\"#; s#^ROOT = .*#ROOT = \"$vf\"#" $vf/check
  out=$(cd $vf && VERIF_SEED=${VERIF_SEED:-1} ./check $p quick 2>&1 | grep -E "^VIOLATION|^OK|INCONCLUSIVE" | head -1 | sed -E 's/replay=.*//' | cut -c1-90)
  echo "$sd | $p | $out"
  git -C /repo worktree remove --force $wt; rm -rf $vf
}
n=0
for sd in "${seeds[@]}"; do
  sd=$(basename "$sd")
  prop=$(python3 -c "import json;print(json.load(open('seeded/$sd/meta.json'))['property'])")
  for p in $prop ${EXTRA[$sd]:-}; do
    n=$((n+1))
    run_one $sd $p $n &
    while [ $(jobs -r | wc -l) -ge $par ]; do sleep 1; done
  done
done
wait
