#!/bin/bash
# usage: tools/seed_matrix.sh [seed dirs...]  - runs every seeded change through the quick tier of
# its own property (plus the extra properties listed below) and prints one line per run.
# /repo must be clean and unused by other runs.
cd /verif || exit 2
declare -A EXTRA=(
 [C05-merge-intro-offset-uses-live-count]="C01"
 [C02-boolean-advance-mustnot-lte]="C08"
 [C12-copyscheduled-dropped-at-one]="C14"
 [C13-memmerge-equiv-deleted]="C03"
 [C04-memmerge-drops-alias]="C01"
 [C05-memmerge-drops-alias]="C04"
 [C01-merge-carryover]="C04"
 [C10-facet-merge-skips-total-zero-again]="C09"
 [C02-unadorned-1hit-at-or-after-lte]="C05 C08"
 [C05-unadorned-disjunction-scratch-reset-late]="C02"
 [C13-flushed-segment-deleted-bits-skipped]="C03"
 [C15-moss-batch-delete-bytes-uncounted]="C01"
)
seeds=("$@"); [ ${#seeds[@]} -eq 0 ] && seeds=($(ls seeded | grep -v MATRIX))
for sd in "${seeds[@]}"; do
  sd=$(basename "$sd")
  prop=$(python3 -c "import json;print(json.load(open('seeded/$sd/meta.json'))['property'])")
  for p in $prop ${EXTRA[$sd]:-}; do
    out=$(VERIF_SEED=${VERIF_SEED:-1} tools/try_seed.sh seeded/$sd $p 2>&1 | grep -E "^== " | head -1)
    echo "$sd | $p | $(echo "$out" | sed -E 's/^== [A-Z0-9]+ quick //; s/replay=.*//' | cut -c1-90)"
  done
done
