#!/bin/bash
# usage: tools/prescreen_seed.sh <Cxx> <worktree of /repo with the change applied> [seed]
# Runs the quick test functions of one check against a worktree instead of /repo (a private copy
# of the harness with its replace directive pointed at the worktree), so that a seeded change can
# be screened while other runs are using /repo.  The authoritative run is tools/try_seed.sh.
set -u
prop=$1; wt=$(readlink -f "$2"); seed=${3:-1}
export GOFLAGS=-mod=mod GOPROXY=off
h=$(mktemp -d /tmp/hx-$prop.XXXX)
trap 'rm -rf "$h"' EXIT
mkdir -p "$h/harness" "$h/scratch"
cp /verif/harness/*.go /verif/harness/go.mod /verif/harness/go.sum.extra "$h/harness/"
[ -d /verif/harness/testdata ] && cp -r /verif/harness/testdata "$h/harness/" && rm -rf "$h/harness/testdata/rapid"
sed -i "s#=> /repo#=> $wt#" "$h/harness/go.mod"
cat "$wt/go.sum" "$h/harness/go.sum.extra" > "$h/harness/go.sum"
race=""; [ "$prop" = C11 ] && race="-race"
cd "$h/harness" || exit 2
go test -c -tags verif -vet=off $race -o "$h/t.test" . || { echo "build failed"; exit 2; }
cd "$h/scratch"
VERIF_TIER=quick VERIF_SCRATCH="$h/scratch" VERIF_SCALE=${VERIF_SCALE:-1} VERIF_SEED=$seed \
VERIF_KNOWN=/verif/known_findings.json VERIF_BIN="$h/t.test" VERIF_ROOT="$h" \
VERIF_EVIDENCE_PART="$h/ev.json" \
  "$h/t.test" -test.run "${PRESCREEN_RUN:-^Test$prop}" ${PRESCREEN_V:+-test.v} -rapid.seed=$((seed*1000003+12345)) -test.timeout=${PRESCREEN_TIMEOUT:-1200s} -test.count=1 > "$h/log" 2>&1
rc=$?
echo "== prescreen $prop on $wt rc=$rc"
[ -n "${PRESCREEN_V:-}" ] && grep -v 'rapid\] draw' "$h/log" | tail -${PRESCREEN_TAIL:-30} | cut -c1-400
grep -v 'rapid\] draw' "$h/log" | grep -E -m6 'failed after|c[0-9][0-9][a-z_]*_test.go:[0-9]+:|^--- FAIL|^ok|^PASS|panic|VERIF-VIOLATION' | cut -c1-700
