package harness

// Corpus construction shared by the search-level checks: a generated history
// (so that segments and tombstones exist) applied to a drawn configuration.

import (
	"fmt"
	"time"

	"github.com/blevesearch/bleve/v2"
	"github.com/blevesearch/bleve/v2/mapping"
	"github.com/blevesearch/bleve/v2/search/searcher"
	"pgregory.net/rapid"
)

// setHeapTakeover sets searcher.DisjunctionHeapTakeover and returns the old value.
func setHeapTakeover(n int) int {
	old := searcher.DisjunctionHeapTakeover
	searcher.DisjunctionHeapTakeover = n
	return old
}

type Corpus struct {
	Cfg     Config
	Idx     bleve.Index
	Dir     string
	Model   *State
	Steps   []c01Step
	Touched bool // some live document was overwritten or deleted (tombstone / stale rows exist)
}

type CorpusOpts struct {
	Engines  []string
	MaxSteps int
	Doc      DocGenOpts
	Mapping  func() mapping.IndexMapping
	MinDocs  int
	IDs      []string // document id pool (default DocIDs)
	MaxOps   int      // operations per batch (default 5)
}

// BigDocIDs: a larger id pool for corpora in which clause cursors have room to overtake each other.
var BigDocIDs = func() []string {
	var ids []string
	for i := 0; i < 24; i++ {
		ids = append(ids, fmt.Sprintf("e%02d", i))
	}
	return ids
}()

// GenBig turns the options into a big-corpus variant in one case out of three.
func (o CorpusOpts) GenBig(t *rapid.T) CorpusOpts {
	if rapid.IntRange(0, 2).Draw(t, "bigcorpus") == 0 {
		o.IDs, o.MaxOps = BigDocIDs, 8
		if o.MaxSteps < 12 {
			o.MaxSteps = 12
		}
	}
	return o
}

func genCorpusSteps(t *rapid.T, cfg Config, o CorpusOpts) []c01Step {
	n := rapid.IntRange(1, o.MaxSteps).Draw(t, "nsteps")
	steps := make([]c01Step, 0, n)
	for i := 0; i < n; i++ {
		c := rapid.IntRange(0, 19).Draw(t, "step")
		switch {
		case c < 12:
			steps = append(steps, c01Step{Kind: "batch", Ops: genDataBatch(t, "b", o.maxOps(), o)})
		case c < 15:
			steps = append(steps, c01Step{Kind: "single", Ops: genDataBatch(t, "s", 1, o)})
		case c < 16 && cfg.OnDisk():
			steps = append(steps, c01Step{Kind: "reopen"})
		case c < 19 && cfg.Engine == EngScorchDisk:
			// forced merges in the middle of a history: merged segments use encodings (1-hit
			// postings) that freshly indexed ones rarely have
			steps = append(steps, c01Step{Kind: "merge"})
		default:
			steps = append(steps, c01Step{Kind: "batch", Ops: genDataBatch(t, "b", o.maxOps(), o)})
		}
	}
	return steps
}

// genDataBatch: index/delete ops only, indexing weighted 3:1 so corpora are not empty.
func (o CorpusOpts) maxOps() int {
	if o.MaxOps > 0 {
		return o.MaxOps
	}
	return 5
}

func genDataBatch(t *rapid.T, label string, maxOps int, co CorpusOpts) []Op {
	o := co.Doc
	pool := co.IDs
	if pool == nil {
		pool = DocIDs
	}
	n := rapid.IntRange(1, maxOps).Draw(t, label+".nops")
	ops := make([]Op, 0, n)
	for i := 0; i < n; i++ {
		id := rapid.SampledFrom(pool).Draw(t, label+".id")
		if rapid.IntRange(0, 3).Draw(t, label+".del") == 0 {
			ops = append(ops, Op{Kind: OpDelete, ID: id})
		} else {
			ops = append(ops, Op{Kind: OpIndex, ID: id, Doc: GenDocOpts(t, label+".doc", o)})
		}
	}
	return ops
}

// BuildCorpus draws a config and a history and applies it.  The index is closed
// and its directory removed when the rapid case ends.
func BuildCorpus(t *rapid.T, o CorpusOpts) *Corpus {
	if o.Engines == nil {
		o.Engines = []string{EngScorchMem, EngScorchDisk, EngScorchDisk, EngUDGtreap, EngUDBolt}
	}
	if o.MaxSteps == 0 {
		o.MaxSteps = 8
	}
	cfg := GenConfig(t, "cfg", o.Engines)
	steps := genCorpusSteps(t, cfg, o)
	return ApplyCorpus(t, cfg, steps, o)
}

func ApplyCorpus(t *rapid.T, cfg Config, steps []c01Step, o CorpusOpts) *Corpus {
	c := &Corpus{Cfg: cfg, Model: NewState(), Steps: steps}
	c.Dir = TempDir(t)
	var m mapping.IndexMapping = WorldMapping()
	if o.Mapping != nil {
		m = o.Mapping()
	}
	idx, err := cfg.Create(c.Dir, m)
	if err != nil {
		t.Fatalf("create %s: %v", cfg, err)
	}
	c.Idx = idx
	t.Cleanup(func() {
		if c.Idx != nil {
			c.Idx.Close()
		}
	})
	for i, s := range steps {
		switch s.Kind {
		case "batch", "single":
			for _, op := range s.Ops {
				if _, live := c.Model.Docs[op.ID]; live && (op.Kind == OpIndex || op.Kind == OpDelete) {
					c.Touched = true
				}
			}
			if s.Kind == "batch" {
				err = ApplyBatch(c.Idx, s.Ops)
			} else {
				err = ApplySingle(c.Idx, s.Ops[0])
			}
			if err != nil {
				t.Fatalf("corpus step %d: %v", i, err)
			}
			c.Model.Apply(s.Ops)
		case "reopen":
			if cfg.UnsafeBatch {
				if err := WaitPersisted(c.Idx, 30*time.Second); err != nil {
					t.Fatalf("corpus step %d: %v", i, err)
				}
			}
			if err := c.Idx.Close(); err != nil {
				t.Fatalf("corpus step %d close: %v", i, err)
			}
			c.Idx = nil
			idx, err := cfg.Reopen(c.Dir)
			if err != nil {
				t.Fatalf("corpus step %d reopen: %v", i, err)
			}
			c.Idx = idx
		case "merge":
			if err := ForceMerge1(c.Idx); err != nil {
				t.Fatalf("corpus step %d merge: %v", i, err)
			}
		}
	}
	return c
}
