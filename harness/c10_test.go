package harness

import (
	"fmt"
	"testing"

	"github.com/blevesearch/bleve/v2"
	"pgregory.net/rapid"
)

// C10 — facet counts describe all matching documents, not only the returned page.

var c10Dates = DatePool[:7]

func matchingDocs(q *Q, m *State) (ids []string, docs []Doc, definite bool) {
	definite = true
	for _, id := range m.LiveIDs() {
		switch Eval(q, id, m.Docs[id]) {
		case Yes:
			ids = append(ids, id)
			docs = append(docs, m.Docs[id])
		case Either:
			definite = false
		}
	}
	return
}

func TestC10Facets(t *testing.T) {
	ev := Ev("C10")
	ev.SetRule("rapid: corpus with single-/multi-valued k,t,n,d and docs lacking them (scorch mem/disk, upsidedown gtreap/boltdb; histories with deletes/updates); query from the judged family (no fuzzy); " +
		"1-3 facet requests: terms (size in {0,1,#buckets-1,#buckets,#buckets+3}, optional prefix/regexp filter), numeric ranges, date ranges (overlapping, open-ended); " +
		"oracle = model over the reference match set: per-doc distinct terms/values, counts, order (count desc, name asc), Total, Missing, Other; metamorphic: identical facets for 4 (Size,From,Sort) page settings; " +
		"non-trivial = >=3 matching docs of which >=1 lacks the facet field and >=1 is multi-valued, and Size+From < matches for some page setting")
	ev.Assume("numeric facets see one shift-0 term per distinct value; terms facets are placed on text fields only")
	pages := []struct {
		size, from int
		sort       []string
	}{{50, 0, []string{"_id"}}, {0, 0, []string{"-_score"}}, {1, 0, []string{"-_id"}}, {3, 2, []string{"k", "_id"}}}
	checkPropN(t, "C10", 300, func(t *rapid.T) {
		c := BuildCorpus(t, CorpusOpts{Doc: DocGenOpts{Nums: SmallNums, Dates: c10Dates}, MaxSteps: 6})
		g := QGen{NoFuzzy: true, Nums: SmallNums, Dates: c10Dates,
			LeafKinds: []string{"all", "all", "term", "match", "prefix", "numrange", "bool", "docid", "daterange"}}
		for qi := 0; qi < 3; qi++ {
			q := g.Tree(t, fmt.Sprintf("q%d", qi), 2)
			ids, docs, definite := matchingDocs(q, c.Model)
			if !definite {
				continue
			}
			nf := rapid.IntRange(1, 3).Draw(t, "nfacets")
			var freqs []FReq
			for i := 0; i < nf; i++ {
				freqs = append(freqs, GenFacet(t, fmt.Sprintf("f%d", i), fmt.Sprintf("f%d", i), SmallNums, c10Dates,
					func(f FReq) int { f.Size = 1000; _, nb := f.Model(docs); return nb }))
			}
			ctxDump = func() string {
				return fmt.Sprintf("C10 query %s facets %s on %s docs %v", q, canonJSON(freqs), c.Cfg, c.Model.Docs)
			}
			var first map[string]FExpect
			cutPage := false
			for pi, p := range pages {
				req := bleve.NewSearchRequestOptions(q.Bleve(), p.size, p.from, false)
				req.SortBy(p.sort)
				for _, f := range freqs {
					req.AddFacet(f.Name, f.Bleve())
				}
				if err := req.Validate(); err != nil {
					ev.Class("rejected-by-validate", 1)
					first = nil
					break
				}
				res, err := SearchWatchdog(c.Idx, req)
				if err != nil {
					t.Fatalf("query %s facets %s on %s: %v", q, canonJSON(freqs), c.Cfg, err)
				}
				if int(res.Total) != len(ids) {
					t.Fatalf("query %s on %s: Total=%d, reference match set %v", q, c.Cfg, res.Total, ids)
				}
				if p.size+p.from < len(ids) {
					cutPage = true
				}
				got := map[string]FExpect{}
				for _, f := range freqs {
					fr := res.Facets[f.Name]
					if fr == nil {
						t.Fatalf("query %s on %s: facet %s missing from the result", q, c.Cfg, f.Name)
					}
					got[f.Name] = RenderFacet(fr)
					want, _ := f.Model(docs)
					if got[f.Name].String() != want.String() {
						t.Fatalf("query %s on %s page(size=%d from=%d sort=%v): facet %s\n got  %s\n want %s\n matching docs %v", q, c.Cfg,
							p.size, p.from, p.sort, canonJSON(f), got[f.Name], want, docs)
					}
				}
				if pi == 0 {
					first = got
				} else if canonJSON(first) != canonJSON(got) {
					t.Fatalf("query %s on %s: facets depend on the page: %s vs %s", q, c.Cfg, canonJSON(first), canonJSON(got))
				}
			}
			if first == nil {
				continue
			}
			// non-trivial rule
			lacks, multi := false, false
			for _, f := range freqs {
				for _, d := range docs {
					fl := d[f.Field]
					if fl == nil {
						lacks = true
					} else if len(fl.S)+len(fl.N)+len(fl.D) > 1 || len(d.AllTokens(f.Field)) > 1 {
						multi = true
					}
				}
			}
			nt := len(ids) >= 3 && lacks && multi && cutPage
			var cl []string
			for _, f := range freqs {
				cl = append(cl, "facet:"+f.Kind)
				if f.Prefix != "" || f.Pattern != "" {
					cl = append(cl, "terms-filter")
				}
				if _, nb := f.Model(docs); f.Kind == "terms" && f.Size < nb {
					cl = append(cl, "size<buckets")
				}
			}
			cl = append(cl, "engine:"+c.Cfg.Engine)
			canon := map[string]interface{}{"cfg": c.Cfg, "steps": c.Steps, "q": q.String(), "facets": freqs}
			sample := map[string]interface{}{"cfg": c.Cfg, "q": q.String(), "facets": freqs, "matches": ids, "result": first}
			ev.Case(nt, canon, sample, cl...)
		}
	})
}
