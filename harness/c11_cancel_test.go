package harness

import (
	"context"
	"fmt"
	"testing"
	"time"

	"github.com/blevesearch/bleve/v2"
	"github.com/blevesearch/bleve/v2/index/scorch/mergeplan"
	"pgregory.net/rapid"
)

// C11 — a forced merge whose context is cancelled (before it starts or a generated number of
// microseconds into it) must leave the index usable: the calls that follow it - another forced
// merge, a search, a write, Close - all return.  In TestC11Concurrency a call that waits on the
// merger is released by the Close some other goroutine issues, so a merger that died with the
// cancelled request is invisible there; here nothing but the call itself can end the wait.

const c11CancelCallLimit = 60 * time.Second

func c11Bounded(name string, f func() error) error {
	done := make(chan error, 1)
	go func() { done <- f() }()
	select {
	case err := <-done:
		return err
	case <-time.After(c11CancelCallLimit):
		return fmt.Errorf("%s did not return within %v (deadlock)", name, c11CancelCallLimit)
	}
}

func TestC11CancelledForceMerge(t *testing.T) {
	ev := Ev("C11")
	checkPropN(t, "C11", 12, func(t *rapid.T) {
		cfg := Config{Engine: EngScorchDisk}
		dir := TempDir(t)
		idx, err := cfg.Create(dir, WorldMapping())
		if err != nil {
			t.Fatalf("create: %v", err)
		}
		closed := false
		defer func() {
			if !closed {
				go idx.Close() // a wedged index must not wedge the run as well
			}
		}()
		s := ScorchOf(idx)
		rounds := rapid.IntRange(1, 5).Draw(t, "rounds")
		n, cancelled, hist := 0, 0, []string{}
		for r := 0; r < rounds; r++ {
			nb := rapid.IntRange(2, 4).Draw(t, "nbatches")
			for b := 0; b < nb; b++ {
				batch := idx.NewBatch()
				for k, nd := 0, rapid.IntRange(1, 3).Draw(t, "ndocs"); k < nd; k++ {
					n++
					_ = batch.Index(fmt.Sprintf("c%03d", n), map[string]interface{}{"t": rapid.SampledFrom(Vocab).Draw(t, "w") + " a"})
				}
				if err := c11Bounded("Batch", func() error { return idx.Batch(batch) }); err != nil {
					t.Fatalf("history %v: batch: %v", hist, err)
				}
			}
			if err := WaitPersisted(idx, 30*time.Second); err != nil {
				t.Fatalf("history %v: %v", hist, err)
			}
			pre := rapid.Bool().Draw(t, "cancelBeforeCall")
			afterUS := rapid.IntRange(0, 3000).Draw(t, "cancelAfterUS")
			ctx, cancel := context.WithCancel(context.Background())
			if pre {
				cancel()
				hist = append(hist, fmt.Sprintf("%d batches; ForceMerge(cancelled ctx)", nb))
			} else {
				go func() { time.Sleep(time.Duration(afterUS) * time.Microsecond); cancel() }()
				hist = append(hist, fmt.Sprintf("%d batches; ForceMerge(ctx cancelled after %dus)", nb, afterUS))
			}
			err := c11Bounded("ForceMerge with a cancelled context", func() error {
				return s.ForceMerge(ctx, &mergeplan.SingleSegmentMergePlanOptions)
			})
			cancel()
			if err != nil {
				t.Fatalf("history %v: %v", hist, err)
			}
			cancelled++
			// the index stays usable: a search, and (in the last round or by choice) a full forced merge
			if _, err := idx.Search(bleve.NewSearchRequest(bleve.NewMatchAllQuery())); err != nil {
				t.Fatalf("history %v: search after the cancelled forced merge: %v", hist, err)
			}
			if r == rounds-1 || rapid.Bool().Draw(t, "fullMergeNow") {
				hist = append(hist, "ForceMerge(background ctx)")
				if err := c11Bounded("ForceMerge after a cancelled ForceMerge", func() error {
					return s.ForceMerge(context.Background(), &mergeplan.SingleSegmentMergePlanOptions)
				}); err != nil {
					t.Fatalf("history %v: %v", hist, err)
				}
			}
		}
		if dc, err := idx.DocCount(); err != nil || dc != uint64(n) {
			t.Fatalf("history %v: DocCount=%d err=%v, %d documents were indexed", hist, dc, err, n)
		}
		if err := c11Bounded("Close", idx.Close); err != nil {
			t.Fatalf("history %v: %v", hist, err)
		}
		closed = true
		ev.Case(cancelled >= 1, map[string]interface{}{"hist": hist}, map[string]interface{}{"history": hist, "docs": n}, "cancelled-forced-merge-then-forced-merge")
	})
}
