package harness

import (
	"bytes"
	"encoding/binary"
	"fmt"
	"os"
	"sort"
	"strings"
	"testing"
	"time"

	"github.com/blevesearch/bleve/v2/registry"
	store "github.com/blevesearch/upsidedown_store_api"
	"pgregory.net/rapid"
)

// C15 — KV store adapters are ordered maps with atomic batches and snapshot readers.

// addMerge is an int64-add merge operator with the shape of upsidedown's.
type addMerge struct{}

func dec64(b []byte) int64 {
	if len(b) != 8 {
		return 0
	}
	return int64(binary.LittleEndian.Uint64(b))
}

func enc64(v int64) []byte {
	b := make([]byte, 8)
	binary.LittleEndian.PutUint64(b, uint64(v))
	return b
}

func (addMerge) FullMerge(key, existing []byte, operands [][]byte) ([]byte, bool) {
	v := dec64(existing)
	for _, o := range operands {
		v += dec64(o)
	}
	return enc64(v), true
}

func (addMerge) PartialMerge(key, l, r []byte) ([]byte, bool) {
	return enc64(dec64(l) + dec64(r)), true
}

func (addMerge) Name() string { return "verif-add" }

var c15Stores = []string{"boltdb", "goleveldb", "gtreap", "moss", "metrics-gtreap", "metrics-boltdb", "moss-over-gtreap"}

func c15Open(name, dir string) (store.KVStore, error) {
	cfg := map[string]interface{}{}
	real := name
	switch name {
	case "metrics-gtreap":
		real = "metrics"
		cfg["kvStoreName_actual"] = "gtreap"
		cfg["path"] = ""
	case "metrics-boltdb":
		real = "metrics"
		cfg["kvStoreName_actual"] = "boltdb"
		cfg["path"] = dir + "/store"
		cfg["initialMmapSize"] = 1 << 26
	case "boltdb":
		cfg["path"] = dir + "/store"
		// bbolt documents that a write transaction which has to grow the mmap blocks until
		// every read transaction is closed; the harness holds readers and writes from one
		// goroutine, so the map is pre-sized (an exported adapter option) to keep that
		// documented restriction from turning into a harness-made deadlock.
		cfg["initialMmapSize"] = 1 << 26
	case "goleveldb":
		cfg["path"] = dir + "/store"
		cfg["create_if_missing"] = true
	case "moss-over-gtreap":
		// moss with another adapter as its lower level: moss's persister hands its in-memory
		// segments down to that store asynchronously and then serves reads from it
		real = "moss"
		cfg["path"] = ""
		cfg["mossLowerLevelStoreName"] = "gtreap"
		cfg["mossLowerLevelStoreConfig"] = map[string]interface{}{"path": ""}
	default:
		cfg["path"] = ""
	}
	cons := registry.KVStoreConstructorByName(real)
	if cons == nil {
		return nil, fmt.Errorf("harness: no KV store %q registered", real)
	}
	return cons(addMerge{}, cfg)
}

func c15Persistent(name string) bool {
	return name == "boltdb" || name == "goleveldb" || name == "metrics-boltdb"
}

var c15Bytes = []byte{0x00, 'a', 'b', 0xfe, 0xff}

func genKey(t *rapid.T, label string) []byte {
	n := rapid.IntRange(1, 3).Draw(t, label+".len")
	k := make([]byte, n)
	for i := range k {
		k[i] = rapid.SampledFrom(c15Bytes).Draw(t, label+".b")
	}
	return k
}

type kvOp struct {
	Kind string `json:"kind"` // set | del | merge
	Key  []byte `json:"key"`
	Val  []byte `json:"val,omitempty"`
}

type kvModel map[string][]byte

func (m kvModel) clone() kvModel {
	n := kvModel{}
	for k, v := range m {
		n[k] = v
	}
	return n
}

func (m kvModel) sortedKeys() []string {
	ks := make([]string, 0, len(m))
	for k := range m {
		ks = append(ks, k)
	}
	sort.Strings(ks)
	return ks
}

// apply: sets/deletes in order, merges folded with the operator.
func (m kvModel) apply(ops []kvOp) {
	merges := map[string][][]byte{}
	for _, o := range ops {
		switch o.Kind {
		case "set":
			m[string(o.Key)] = o.Val
		case "del":
			delete(m, string(o.Key))
		case "merge":
			merges[string(o.Key)] = append(merges[string(o.Key)], o.Val)
		}
	}
	for k, operands := range merges {
		v, _ := addMerge{}.FullMerge([]byte(k), m[k], operands)
		m[k] = v
	}
}

func incBytes(in []byte) []byte {
	rv := append([]byte(nil), in...)
	for i := len(rv) - 1; i >= 0; i-- {
		rv[i]++
		if rv[i] != 0 {
			return rv
		}
	}
	return nil
}

// rangeOf returns the model's keys in [start,end) (end nil = unbounded).
func (m kvModel) rangeOf(start, end []byte) []string {
	var out []string
	for _, k := range m.sortedKeys() {
		if bytes.Compare([]byte(k), start) < 0 {
			continue
		}
		if end != nil && bytes.Compare([]byte(k), end) >= 0 {
			continue
		}
		out = append(out, k)
	}
	return out
}

type c15Reader struct {
	r       store.KVReader
	snap    kvModel
	version int // number of batches applied when opened
}

type c15State struct {
	t       *rapid.T
	name    string
	dir     string
	s       store.KVStore
	model   kvModel
	readers []*c15Reader
	nbatch  int
	// stats
	staleRead, seeks, ffPrefix, emptyVal, mergeAbsent, reopens, multigets, dupSkipped, settles, prealloc int
	lastMod                                                                                    map[string]int // key -> batch number of the last modification
}

func (st *c15State) checkIter(it store.KVIterator, keys []string, snap kvModel, pos int, what string) {
	k, v, ok := it.Current()
	if pos >= len(keys) {
		if ok || it.Valid() {
			st.t.Fatalf("%s: iterator valid at %q, model exhausted (keys %q)", what, k, keys)
		}
		return
	}
	if !ok || !it.Valid() {
		st.t.Fatalf("%s: iterator invalid, model at %q (keys %q)", what, keys[pos], keys)
	}
	if string(k) != keys[pos] || !bytes.Equal(it.Key(), k) {
		st.t.Fatalf("%s: iterator at key %q (Key()=%q), model at %q (keys %q)", what, k, it.Key(), keys[pos], keys)
	}
	if !bytes.Equal(v, snap[keys[pos]]) || !bytes.Equal(it.Value(), v) {
		st.t.Fatalf("%s: key %q value %q (Value()=%q), model %q", what, k, v, it.Value(), snap[keys[pos]])
	}
}

func (st *c15State) runIter(rd *c15Reader, prefixMode bool) {
	t := st.t
	var it store.KVIterator
	var start, end []byte
	var what string
	if prefixMode {
		start = genKey(t, "prefix")
		if rapid.Bool().Draw(t, "shortPrefix") {
			start = start[:1]
		}
		end = incBytes(start)
		it = rd.r.PrefixIterator(start)
		what = fmt.Sprintf("%s PrefixIterator(%q)", st.name, start)
		if start[0] == 0xff {
			st.ffPrefix++
		}
	} else {
		start, end = genKey(t, "start"), genKey(t, "end")
		it = rd.r.RangeIterator(start, end)
		what = fmt.Sprintf("%s RangeIterator(%q,%q)", st.name, start, end)
	}
	if it == nil {
		t.Fatalf("%s returned nil", what)
	}
	defer func() {
		if err := it.Close(); err != nil {
			t.Fatalf("%s Close: %v", what, err)
		}
	}()
	var keys []string
	if prefixMode {
		for _, k := range rd.snap.sortedKeys() {
			if bytes.HasPrefix([]byte(k), start) {
				keys = append(keys, k)
			}
		}
	} else {
		keys = rd.snap.rangeOf(start, end)
	}
	pos := 0
	st.checkIter(it, keys, rd.snap, pos, what+" initial")
	n := rapid.IntRange(0, 8).Draw(t, "iterSteps")
	for i := 0; i < n; i++ {
		if pos < len(keys) && rapid.IntRange(0, 2).Draw(t, "iterAct") < 2 {
			it.Next()
			pos++
			st.checkIter(it, keys, rd.snap, pos, fmt.Sprintf("%s after Next #%d", what, i))
			continue
		}
		var k []byte
		if len(keys) > 0 && rapid.Bool().Draw(t, "seekExisting") {
			k = []byte(rapid.SampledFrom(keys).Draw(t, "seekKey"))
		} else {
			k = genKey(t, "seek")
		}
		it.Seek(k)
		st.seeks++
		tgt := k
		if bytes.Compare(tgt, start) < 0 {
			tgt = start
		}
		pos = sort.Search(len(keys), func(i int) bool { return bytes.Compare([]byte(keys[i]), tgt) >= 0 })
		st.checkIter(it, keys, rd.snap, pos, fmt.Sprintf("%s after Seek(%q) #%d", what, k, i))
	}
	// stale-read bookkeeping
	for _, k := range keys {
		if st.lastMod[k] > rd.version {
			st.staleRead++
			break
		}
	}
}

func (st *c15State) pickReader() *c15Reader {
	// a fresh reader on the current state or one of the held ones
	if len(st.readers) > 0 && rapid.IntRange(0, 3).Draw(st.t, "useHeld") != 0 {
		return st.readers[rapid.IntRange(0, len(st.readers)-1).Draw(st.t, "reader")]
	}
	return nil
}

func (st *c15State) withReader(f func(rd *c15Reader)) {
	rd := st.pickReader()
	if rd != nil {
		f(rd)
		return
	}
	r, err := st.s.Reader()
	if err != nil {
		st.t.Fatalf("%s Reader: %v", st.name, err)
	}
	closed := false
	defer func() {
		if !closed { // failing case: still release the read transaction so Close cannot block
			r.Close()
		}
	}()
	f(&c15Reader{r: r, snap: st.model, version: st.nbatch})
	closed = true
	if err := r.Close(); err != nil {
		st.t.Fatalf("%s reader Close: %v", st.name, err)
	}
}

func (st *c15State) closeAll() {
	for _, rd := range st.readers {
		if err := rd.r.Close(); err != nil {
			st.t.Fatalf("%s reader Close: %v", st.name, err)
		}
	}
	st.readers = nil
}

func c15Property(t *rapid.T, name string, ev *Collector, multiGet bool) {
	dir := ""
	if c15Persistent(name) {
		dir = TempDir(t)
	}
	s, err := c15Open(name, dir)
	if err != nil {
		t.Fatalf("open %s: %v", name, err)
	}
	st := &c15State{t: t, name: name, dir: dir, s: s, model: kvModel{}, lastMod: map[string]int{}}
	defer func() {
		for _, rd := range st.readers {
			rd.r.Close()
		}
		st.s.Close()
	}()
	var trace []interface{}
	maxReaders := 3
	actions := map[string]func(*rapid.T){
		"batch": func(t *rapid.T) {
			n := rapid.IntRange(1, 8).Draw(t, "nops")
			if rapid.IntRange(0, 4).Draw(t, "bigbatch") == 0 {
				// large batches with repeated keys: the operations of a batch apply in order
				n = rapid.IntRange(13, 40).Draw(t, "nopsBig")
			}
			var ops []kvOp
			merged, plain := map[string]bool{}, map[string]bool{}
			for i := 0; i < n; i++ {
				k := genKey(t, "k")
				if strings.HasPrefix(name, "moss") && (plain[string(k)] || merged[string(k)]) {
					// moss sorts a batch with an unstable sort: two mutations of one key in one
					// batch have no defined winner.  upsidedown never emits such a batch (its
					// rows are keyed uniquely), so for moss each key occurs at most once per batch.
					st.dupSkipped++
					continue
				}
				c := rapid.IntRange(0, 9).Draw(t, "op")
				switch {
				case c < 5 && !merged[string(k)]:
					v := rapid.SliceOfN(rapid.SampledFrom(c15Bytes), 0, 3).Draw(t, "v")
					if len(v) == 0 {
						st.emptyVal++
						v = []byte{}
					}
					ops = append(ops, kvOp{"set", k, v})
					plain[string(k)] = true
				case c < 8 && !merged[string(k)]:
					ops = append(ops, kvOp{"del", k, nil})
					plain[string(k)] = true
				case !plain[string(k)]:
					if _, ok := st.model[string(k)]; !ok {
						st.mergeAbsent++
					}
					ops = append(ops, kvOp{"merge", k, enc64(int64(rapid.IntRange(-3, 3).Draw(t, "delta")))})
					merged[string(k)] = true
				}
			}
			w, err := st.s.Writer()
			if err != nil {
				t.Fatalf("%s Writer: %v", name, err)
			}
			b := w.NewBatch()
			distinct := map[string]bool{}
			for _, o := range ops {
				distinct[string(o.Key)] = true
			}
			if len(distinct) == len(ops) && rapid.Bool().Draw(t, "preallocated") {
				// the pre-allocated form, used the way upsidedown's batchRows uses it: one buffer
				// of the announced size, filled front to back with the sets, then the deletes,
				// then the merges (keys are distinct here, so the order does not matter)
				var opt store.KVBatchOptions
				for _, o := range ops {
					switch o.Kind {
					case "set":
						opt.NumSets++
						opt.TotalBytes += len(o.Key) + len(o.Val)
					case "del":
						opt.NumDeletes++
						opt.TotalBytes += len(o.Key)
					case "merge":
						opt.NumMerges++
						opt.TotalBytes += 2 * (len(o.Key) + len(o.Val))
					}
				}
				buf, pb, err := w.NewBatchEx(opt)
				if err != nil {
					t.Fatalf("%s NewBatchEx: %v", name, err)
				}
				_ = b.Close()
				b = pb
				put := func(x []byte) []byte {
					n := copy(buf, x)
					r := buf[:n] // (capacity untouched: moss locates the bytes in its buffer through it)
					buf = buf[n:]
					return r
				}
				for _, kind := range []string{"set", "del", "merge"} {
					for _, o := range ops {
						if o.Kind != kind {
							continue
						}
						switch kind {
						case "set":
							b.Set(put(o.Key), put(o.Val))
						case "del":
							b.Delete(put(o.Key))
						case "merge":
							b.Merge(put(o.Key), put(o.Val))
						}
					}
				}
				st.prealloc++
			} else {
				for _, o := range ops {
					switch o.Kind {
					case "set":
						b.Set(o.Key, o.Val)
					case "del":
						b.Delete(o.Key)
					case "merge":
						b.Merge(o.Key, o.Val)
					}
				}
			}
			if err := w.ExecuteBatch(b); err != nil {
				t.Fatalf("%s ExecuteBatch: %v", name, err)
			}
			_ = b.Close()
			if err := w.Close(); err != nil {
				t.Fatalf("%s writer Close: %v", name, err)
			}
			st.model = st.model.clone()
			st.model.apply(ops)
			st.nbatch++
			for _, o := range ops {
				st.lastMod[string(o.Key)] = st.nbatch
			}
			trace = append(trace, ops)
		},
		"openReader": func(t *rapid.T) {
			if len(st.readers) >= maxReaders {
				t.Skip("enough readers")
			}
			r, err := st.s.Reader()
			if err != nil {
				t.Fatalf("%s Reader: %v", name, err)
			}
			st.readers = append(st.readers, &c15Reader{r: r, snap: st.model, version: st.nbatch})
			trace = append(trace, "openReader")
		},
		"closeReader": func(t *rapid.T) {
			if len(st.readers) == 0 {
				t.Skip("no reader")
			}
			i := rapid.IntRange(0, len(st.readers)-1).Draw(t, "i")
			if err := st.readers[i].r.Close(); err != nil {
				t.Fatalf("%s reader Close: %v", name, err)
			}
			st.readers = append(st.readers[:i], st.readers[i+1:]...)
			trace = append(trace, "closeReader")
		},
		"get": func(t *rapid.T) {
			st.withReader(func(rd *c15Reader) {
				k := genKey(t, "k")
				v, err := rd.r.Get(k)
				if err != nil {
					t.Fatalf("%s Get(%q): %v", name, k, err)
				}
				want, ok := rd.snap[string(k)]
				if !ok && v != nil {
					t.Fatalf("%s Get(%q)=%q for a key absent in the reader's snapshot", name, k, v)
				}
				if ok && !bytes.Equal(v, want) {
					t.Fatalf("%s Get(%q)=%q, reader's snapshot has %q", name, k, v, want)
				}
				if ok && v == nil {
					// "If the key does not exist, nil is returned": a present key, even with an
					// empty value, is not nil
					t.Fatalf("%s Get(%q)=nil (absent), but the reader's snapshot holds the key with the empty value", name, k)
				}
				if ok && st.lastMod[string(k)] > rd.version {
					st.staleRead++
				}
			})
		},
		"multiGet": func(t *rapid.T) {
			if !multiGet {
				t.Skip("multi-get excluded (known finding)")
			}
			st.withReader(func(rd *c15Reader) {
				n := rapid.IntRange(0, 4).Draw(t, "nkeys")
				keys := make([][]byte, n)
				for i := range keys {
					keys[i] = genKey(t, "k")
				}
				vals, err := c15MultiGet(rd.r, keys)
				if err != nil {
					t.Fatalf("%s MultiGet(%q): %v", name, keys, err)
				}
				if len(vals) != len(keys) {
					t.Fatalf("%s MultiGet(%q) returned %d values", name, keys, len(vals))
				}
				for i, k := range keys {
					want, ok := rd.snap[string(k)]
					if !ok && vals[i] != nil || ok && !bytes.Equal(vals[i], want) || ok && vals[i] == nil {
						t.Fatalf("%s MultiGet(%q)[%d]=%q, snapshot has %q present=%v", name, keys, i, vals[i], want, ok)
					}
				}
				st.multigets++
			})
		},
		"prefixIter": func(t *rapid.T) { st.withReader(func(rd *c15Reader) { st.runIter(rd, true) }) },
		"rangeIter":  func(t *rapid.T) { st.withReader(func(rd *c15Reader) { st.runIter(rd, false) }) },
		"settle": func(t *rapid.T) {
			if !strings.HasPrefix(name, "moss-over-") {
				t.Skip("no lower level")
			}
			// give moss's persister time to hand the dirty segments down to the lower level
			time.Sleep(time.Duration(rapid.SampledFrom([]int{1, 5, 20}).Draw(t, "settleMS")) * time.Millisecond)
			st.settles++
		},
		"reopen": func(t *rapid.T) {
			if !c15Persistent(name) {
				t.Skip("not persistent")
			}
			st.closeAll()
			if err := st.s.Close(); err != nil {
				t.Fatalf("%s Close: %v", name, err)
			}
			s, err := c15Open(name, dir)
			if err != nil {
				t.Fatalf("%s reopen: %v", name, err)
			}
			st.s = s
			st.reopens++
			trace = append(trace, "reopen")
		},
		"": func(t *rapid.T) {
			// full scan of the live state
			r, err := st.s.Reader()
			if err != nil {
				t.Fatalf("%s Reader: %v", name, err)
			}
			it := r.RangeIterator([]byte{0x00}, []byte{0xff, 0xff, 0xff, 0xff})
			var got []string
			problem := ""
			for ; it.Valid(); it.Next() {
				k, v, _ := it.Current()
				if !bytes.Equal(v, st.model[string(k)]) && problem == "" {
					problem = fmt.Sprintf("%s full scan: key %q value %q, model %q", name, k, v, st.model[string(k)])
				}
				got = append(got, string(k))
			}
			it.Close()
			r.Close()
			if problem != "" { // (reported only now: a failure with a reader open would block the store's Close)
				t.Fatalf("%s", problem)
			}
			want := st.model.sortedKeys()
			if fmt.Sprintf("%q", got) != fmt.Sprintf("%q", want) {
				t.Fatalf("%s full scan keys %q, model %q", name, got, want)
			}
		},
	}
	// weights: writes and reader acquisition twice as likely as the other actions, so
	// that held readers are usually queried after later batches
	actions["batch2"] = actions["batch"]
	actions["openReader2"] = actions["openReader"]
	t.Repeat(actions)
	nt := st.staleRead > 0 && st.seeks > 0
	var classes []string
	add := func(c bool, n string) {
		if c {
			classes = append(classes, n)
		}
	}
	classes = append(classes, "store:"+name)
	add(st.staleRead > 0, "reader-queried-after-later-write")
	add(st.seeks > 0, "seek")
	add(st.ffPrefix > 0, "0xff-prefix-scan")
	add(st.emptyVal > 0, "empty-value")
	add(st.mergeAbsent > 0, "merge-on-absent-key")
	add(st.reopens > 0, "reopen")
	add(st.settles > 0, "lower-level-hand-over-awaited")
	add(st.prealloc > 0, "pre-allocated-batch")
	add(st.multigets > 0, "multi-get")
	canon := map[string]interface{}{"store": name, "trace": trace, "seeks": st.seeks, "stale": st.staleRead}
	ev.Case(nt, canon, canon, classes...)
}

// c15MultiGet calls MultiGet and converts a panic into an error (the harness must
// survive the known upstream helper defect to report it).
func c15MultiGet(r store.KVReader, keys [][]byte) (vals [][]byte, err error) {
	defer func() {
		if p := recover(); p != nil {
			err = fmt.Errorf("panic: %v", p)
		}
	}()
	return r.MultiGet(keys)
}

func TestC15KV(t *testing.T) {
	ev := Ev("C15")
	ev.SetRule("rapid state machine per KV adapter, batches through NewBatch or (distinct keys) the pre-allocated NewBatchEx form filled front to back as upsidedown does (boltdb, goleveldb, gtreap, moss, metrics over gtreap and boltdb, moss with gtreap as its lower level - with pauses that let moss hand segments down): batches of set/delete/merge over 1-3 byte keys from {00,a,b,fe,ff}, " +
		"up to 3 held snapshot readers, get / multi-get / prefix and range iterators with Next/Seek scripts, reopen; oracle = sorted byte map with int64-add merge operator, reader answers from its own snapshot copy, full scan after every step; " +
		"non-trivial = a reader was queried about a key modified by a later batch and an iterator script contained a Seek")
	ev.Assume("keys are non-empty; a key merged in a batch is not also set/deleted in that batch; Next is only called on a valid iterator")
	only := os.Getenv("VERIF_C15_STORE")
	for _, name := range c15Stores {
		if only != "" && only != name {
			continue
		}
		name := name
		t.Run(name, func(t *testing.T) {
			checkPropN(t, "C15", 250, func(t *rapid.T) { c15Property(t, name, ev, true) })
		})
	}
}
