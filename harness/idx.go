package harness

import (
	"context"
	"fmt"
	"os"
	"sort"
	"time"

	"github.com/blevesearch/bleve/v2"
	_ "github.com/blevesearch/bleve/v2/config"
	"github.com/blevesearch/bleve/v2/index/scorch"
	"github.com/blevesearch/bleve/v2/index/scorch/mergeplan"
	"github.com/blevesearch/bleve/v2/index/upsidedown"
	"github.com/blevesearch/bleve/v2/index/upsidedown/store/boltdb"
	"github.com/blevesearch/bleve/v2/index/upsidedown/store/goleveldb"
	"github.com/blevesearch/bleve/v2/index/upsidedown/store/gtreap"
	_ "github.com/blevesearch/bleve/v2/index/upsidedown/store/metrics"
	"github.com/blevesearch/bleve/v2/index/upsidedown/store/moss"
	"github.com/blevesearch/bleve/v2/mapping"
	"pgregory.net/rapid"
)

const (
	EngScorchDisk = "scorch-disk"
	EngScorchMem  = "scorch-mem"
	EngUDBolt     = "ud-boltdb"
	EngUDLevel    = "ud-goleveldb"
	EngUDGtreap   = "ud-gtreap"
	EngUDMoss     = "ud-moss"
)

// Config describes one index configuration (engine x store x options).
type Config struct {
	Engine        string `json:"engine"`
	SegVersion    int    `json:"segv,omitempty"`
	UnsafeBatch   bool   `json:"unsafe,omitempty"`
	Workers       int    `json:"workers,omitempty"`
	MaxMemMerge   int    `json:"maxmem,omitempty"`
	NapMS         int    `json:"nap"`
	MaxSegPerTier int    `json:"tier,omitempty"`
	FloorSegSize  int    `json:"floor,omitempty"`
	SegPerMerge   int    `json:"permerge,omitempty"`
	KeepSnapshots int    `json:"keep,omitempty"`
	Spatial       string `json:"spatial,omitempty"`
	BoltMmap      bool   `json:"-"`
	EventCB       string `json:"-"`
	AsyncErrCB    string `json:"-"`
}

func (c Config) IsScorch() bool { return c.Engine == EngScorchDisk || c.Engine == EngScorchMem }
func (c Config) OnDisk() bool {
	return c.Engine == EngScorchDisk || c.Engine == EngUDBolt || c.Engine == EngUDLevel
}

func (c Config) String() string { return canonJSON(c) }

func (c Config) kv() (indexType, store string, cfg map[string]interface{}) {
	cfg = map[string]interface{}{}
	switch c.Engine {
	case EngScorchDisk, EngScorchMem:
		if c.SegVersion != 0 {
			cfg["forceSegmentType"] = "zap"
			cfg["forceSegmentVersion"] = c.SegVersion
		}
		if c.UnsafeBatch {
			cfg["unsafe_batch"] = true
		}
		if c.Engine == EngScorchDisk {
			po := map[string]interface{}{"PersisterNapTimeMSec": c.NapMS}
			if c.Workers > 0 {
				po["NumPersisterWorkers"] = c.Workers
				po["MaxSizeInMemoryMergePerWorker"] = c.MaxMemMerge
			}
			cfg["scorchPersisterOptions"] = po
			if c.MaxSegPerTier > 0 {
				cfg["scorchMergePlanOptions"] = map[string]interface{}{
					"MaxSegmentsPerTier":   c.MaxSegPerTier,
					"FloorSegmentSize":     c.FloorSegSize,
					"SegmentsPerMergeTask": c.SegPerMerge,
					"MaxSegmentSize":       1000000,
					"TierGrowth":           2.0,
				}
			}
			if c.KeepSnapshots > 0 {
				cfg["numSnapshotsToKeep"] = c.KeepSnapshots
			}
		}
		if c.Spatial != "" {
			cfg["spatialPlugin"] = c.Spatial
		}
		if c.EventCB != "" {
			cfg["eventCallbackName"] = c.EventCB
		}
		if c.AsyncErrCB != "" {
			cfg["asyncErrorCallbackName"] = c.AsyncErrCB
		}
		return scorch.Name, scorch.Name, cfg
	case EngUDBolt:
		if c.BoltMmap {
			// bbolt blocks a writer that has to grow the mmap until every read
			// transaction is closed; checks that hold readers across writes pre-size it
			cfg["initialMmapSize"] = 1 << 26
		}
		return upsidedown.Name, boltdb.Name, cfg
	case EngUDLevel:
		return upsidedown.Name, goleveldb.Name, cfg
	case EngUDGtreap:
		return upsidedown.Name, gtreap.Name, cfg
	case EngUDMoss:
		return upsidedown.Name, moss.Name, cfg
	}
	panic("bad engine " + c.Engine)
}

// Create makes a fresh index; dir is used only by on-disk engines.
func (c Config) Create(dir string, m mapping.IndexMapping) (bleve.Index, error) {
	it, st, cfg := c.kv()
	path := ""
	if c.OnDisk() {
		path = dir
	}
	return bleve.NewUsing(path, m, it, st, cfg)
}

// Reopen opens an existing on-disk index with the same runtime options.
func (c Config) Reopen(dir string) (bleve.Index, error) {
	_, _, cfg := c.kv()
	return bleve.OpenUsing(dir, cfg)
}

var AllEngines = []string{EngScorchMem, EngScorchDisk, EngUDGtreap, EngUDBolt, EngUDLevel, EngUDMoss}

// GenConfig draws a configuration. memWeight in 0..10 = tenths of draws that
// pick an in-memory engine.
func GenConfig(t *rapid.T, label string, engines []string) Config {
	c := Config{Engine: rapid.SampledFrom(engines).Draw(t, label+".engine")}
	if c.IsScorch() {
		c.SegVersion = rapid.SampledFrom([]int{0, 0, 11, 12, 13, 14, 15, 16, 17}).Draw(t, label+".segv")
	}
	if c.Engine == EngScorchDisk {
		c.UnsafeBatch = rapid.Bool().Draw(t, label+".unsafe")
		GenScorchDiskOpts(t, label, &c)
	}
	return c
}

func GenScorchDiskOpts(t *rapid.T, label string, c *Config) {
	c.Workers = rapid.SampledFrom([]int{0, 1, 2, 4}).Draw(t, label+".workers")
	if c.Workers > 1 {
		c.MaxMemMerge = rapid.SampledFrom([]int{1, 4096}).Draw(t, label+".maxmem")
	} else if c.Workers == 1 {
		c.MaxMemMerge = rapid.SampledFrom([]int{0, 1, 4096}).Draw(t, label+".maxmem")
	}
	c.NapMS = rapid.SampledFrom([]int{0, 0, 5}).Draw(t, label+".nap")
	c.MaxSegPerTier = rapid.SampledFrom([]int{0, 1, 2, 10}).Draw(t, label+".tier")
	if c.MaxSegPerTier > 0 {
		c.FloorSegSize = rapid.SampledFrom([]int{1, 2000}).Draw(t, label+".floor")
		c.SegPerMerge = rapid.SampledFrom([]int{2, 10}).Draw(t, label+".permerge")
	}
	c.KeepSnapshots = rapid.SampledFrom([]int{0, 1, 2, 3, 5}).Draw(t, label+".keep")
}

// ScorchOf returns the scorch engine under a bleve index (nil otherwise).
func ScorchOf(idx bleve.Index) *scorch.Scorch {
	adv, err := idx.Advanced()
	if err != nil {
		return nil
	}
	s, _ := adv.(*scorch.Scorch)
	return s
}

func statU64(m map[string]interface{}, k string) uint64 {
	switch v := m[k].(type) {
	case uint64:
		return v
	case int:
		return uint64(v)
	case float64:
		return uint64(v)
	}
	return 0
}

// WaitPersisted blocks until the persister has caught up with the root.
func WaitPersisted(idx bleve.Index, limit time.Duration) error {
	s := ScorchOf(idx)
	if s == nil {
		return nil
	}
	deadline := time.Now().Add(limit)
	for {
		m := s.StatsMap()
		if m == nil {
			return fmt.Errorf("index closed")
		}
		if statU64(m, "LastPersistedEpoch") >= statU64(m, "CurRootEpoch") {
			return nil
		}
		if time.Now().After(deadline) {
			return fmt.Errorf("persister did not catch up within %v (root %d persisted %d)", limit,
				statU64(m, "CurRootEpoch"), statU64(m, "LastPersistedEpoch"))
		}
		time.Sleep(time.Millisecond)
	}
}

// WaitQuiet waits until persister and merger are both caught up.
func WaitQuiet(idx bleve.Index, limit time.Duration) error {
	s := ScorchOf(idx)
	if s == nil {
		return nil
	}
	deadline := time.Now().Add(limit)
	for {
		m := s.StatsMap()
		if m == nil {
			return fmt.Errorf("index closed")
		}
		if a, ok := m["index_bgthreads_active"].(bool); ok && !a {
			return nil
		}
		if time.Now().After(deadline) {
			return fmt.Errorf("background work did not settle within %v", limit)
		}
		time.Sleep(time.Millisecond)
	}
}

// ForceMerge1 merges the on-disk index down to one segment.
func ForceMerge1(idx bleve.Index) error {
	s := ScorchOf(idx)
	if s == nil {
		return nil
	}
	if err := WaitPersisted(idx, 30*time.Second); err != nil {
		return err
	}
	ctx, cancel := context.WithTimeout(context.Background(), 60*time.Second)
	defer cancel()
	return s.ForceMerge(ctx, &mergeplan.SingleSegmentMergePlanOptions)
}

// SegmentShape returns (#segments, #tombstoned docs) of the current root.
func SegmentShape(idx bleve.Index) (segs int, deleted int) {
	s := ScorchOf(idx)
	if s == nil {
		return 0, 0
	}
	r, err := s.Reader()
	if err != nil {
		return 0, 0
	}
	defer r.Close()
	is, ok := r.(*scorch.IndexSnapshot)
	if !ok {
		return 0, 0
	}
	for _, seg := range is.Segments() {
		segs++
		if d := seg.Deleted(); d != nil {
			deleted += int(d.GetCardinality())
		}
	}
	return
}

// TempDir makes a scratch directory removed at the end of the rapid case.
func TempDir(t interface {
	Cleanup(func())
	Fatalf(string, ...any)
}) string {
	base := os.Getenv("VERIF_SCRATCH")
	if base == "" {
		base = os.TempDir()
	}
	d, err := os.MkdirTemp(base, "verif.")
	if err != nil {
		t.Fatalf("harness: mkdtemp: %v", err)
	}
	t.Cleanup(func() { os.RemoveAll(d) })
	return d
}

func sortedKeys[V any](m map[string]V) []string {
	ks := make([]string, 0, len(m))
	for k := range m {
		ks = append(ks, k)
	}
	sort.Strings(ks)
	return ks
}
