//go:build verif

package harness

import (
	"bufio"
	"context"
	"fmt"
	"os"
	"path/filepath"
	"sort"
	"strings"
	"sync"
	"sync/atomic"
	"testing"
	"time"

	"github.com/blevesearch/bleve/v2"
	"github.com/blevesearch/bleve/v2/index/scorch"
	"github.com/blevesearch/bleve/v2/index/scorch/mergeplan"
	segment "github.com/blevesearch/scorch_segment_api/v2"
	"pgregory.net/rapid"
)

// C12 — needed segment files are never removed; unneeded files do not accumulate.

var (
	c12Mu        sync.Mutex // held by the sampler; the purger check callback takes it too
	c12Purges    int64
	c12AsyncErrs sync.Map // index path -> error text
	c12Once      sync.Once
)

func c12Register() {
	c12Once.Do(func() {
		scorch.RegistryEventCallbacks["verif-c12"] = func(e scorch.Event) bool {
			if e.Kind == scorch.EventKindPurgerCheck {
				atomic.AddInt64(&c12Purges, 1)
			}
			return true
		}
		scorch.RegistryAsyncErrorCallbacks["verif-c12"] = func(err error, path string) {
			c12AsyncErrs.Store(path, err.Error())
		}
	})
}

func segmentFilesOf(r interface{}) []string {
	is, ok := r.(*scorch.IndexSnapshot)
	if !ok {
		return nil
	}
	var out []string
	for _, ss := range is.Segments() {
		if ps, ok := ss.Segment().(segment.PersistedSegment); ok {
			out = append(out, ps.Path())
		}
	}
	return out
}

func openFilesUnder(dir string) []string {
	var out []string
	ents, _ := os.ReadDir("/proc/self/fd")
	for _, e := range ents {
		if l, err := os.Readlink("/proc/self/fd/" + e.Name()); err == nil && strings.HasPrefix(l, dir) {
			out = append(out, "fd:"+l)
		}
	}
	if f, err := os.Open("/proc/self/maps"); err == nil {
		sc := bufio.NewScanner(f)
		for sc.Scan() {
			if strings.Contains(sc.Text(), dir) {
				fs := strings.Fields(sc.Text())
				out = append(out, "mmap:"+fs[len(fs)-1])
			}
		}
		f.Close()
	}
	sort.Strings(out)
	return out
}

// waitSettled: persister and merger caught up with the root, stable over several polls.
func waitSettled(s *scorch.Scorch, limit time.Duration) error {
	deadline := time.Now().Add(limit)
	stable := 0
	var last string
	for time.Now().Before(deadline) {
		m := s.StatsMap()
		if m == nil {
			return fmt.Errorf("index closed")
		}
		root, pers, merged := statU64(m, "CurRootEpoch"), statU64(m, "LastPersistedEpoch"), statU64(m, "LastMergedEpoch")
		last = fmt.Sprintf("root=%d persisted=%d merged=%d", root, pers, merged)
		if pers == root && merged == root {
			stable++
			if stable >= 4 {
				return nil
			}
		} else {
			stable = 0
		}
		time.Sleep(25 * time.Millisecond)
	}
	return fmt.Errorf("background work did not settle within %v (%s)", limit, last)
}

func TestC12Files(t *testing.T) {
	c12Register()
	ev := Ev("C12")
	ev.SetRule("rapid: scorch disk index, numSnapshotsToKeep in {1,2,3,5}, aggressive merge plan options, persister workers/in-memory merges, 30-120 small churn batches (updates, deletes) with forced merges (some abandoned by their caller through a cancelled context), long-lived readers and a seeded delay plan at lock-free hook points; " +
		"continuous sampler synchronised with the purger through the existing EventKindPurgerCheck callback: every epoch listed by RootBoltSnapshotEpochs loads (all its files exist), every file segment of the current root and of every held reader exists; no async error callback fires; " +
		"at quiescence (persister and merger caught up, one wake-up write, caught up again): *.zap on disk == files named by snapshots in root.bolt, CurFilesIneligibleForRemoval == 0, number of bolt epochs <= numSnapshotsToKeep+1; after Close no fd or mmap of the directory remains; " +
		"plus wall-clock SIGKILL runs of such workloads (C03 machinery): the index reopens at a batch not older than the last acknowledged one; " +
		"non-trivial = >=3 purger passes and >=2 merges happened and >=1 sample was taken; distinct = hash of (config, workload, delay seed)")
	ev.Assume("'no accumulation' is asserted only at quiescence (the purger runs only when the persister is idle); +1 epoch of slack: the snapshot made obsolete by the wake-up write is released by the next purge")
	checkPropN(t, "C12", 24, func(t *rapid.T) {
		cfg := genC03Config(t)
		cfg.KeepSnapshots = rapid.SampledFrom([]int{1, 2, 3, 5}).Draw(t, "keepN")
		cfg.EventCB, cfg.AsyncErrCB = "verif-c12", "verif-c12"
		batches := genC03Workload(t, 30, 120)
		seed := rapid.Uint64().Draw(t, "delaySeed")
		dir := TempDir(t)
		idxDir := filepath.Join(dir, "idx")
		storeDir := filepath.Join(idxDir, "store")
		InstallHook(HookPlan{Mode: "delay", DelaySeed: seed, DelayMaxUS: 1500})
		// A purge pass and a sample exclude each other: listing the recorded epochs and
		// loading them is not atomic for any caller, so a purge in between is no violation.
		SetOnPoint(func(p string) {
			switch p {
			case "purge.begin":
				c12Mu.Lock()
			case "purge.end":
				c12Mu.Unlock()
			}
		})
		defer func() { SetOnPoint(nil); ClearHook() }()
		purges0 := atomic.LoadInt64(&c12Purges)
		idx, err := cfg.Create(idxDir, WorldMapping())
		if err != nil {
			t.Fatalf("create: %v", err)
		}
		s := ScorchOf(idx)
		closed := false
		// sampler
		stop := make(chan struct{})
		var stopOnce sync.Once
		stopSampler := func() { stopOnce.Do(func() { close(stop) }) }
		var samples int64
		var violation atomic.Value
		var wg sync.WaitGroup
		defer func() {
			// also reached when rapid abandons a case from inside a Draw: the sampler
			// must be gone before the index is closed under it
			stopSampler()
			wg.Wait()
			if !closed {
				idx.Close()
			}
		}()
		wg.Add(1)
		go func() {
			defer wg.Done()
			for {
				select {
				case <-stop:
					return
				default:
				}
				c12Mu.Lock()
				eps, err := s.RootBoltSnapshotEpochs()
				if err == nil {
					for _, e := range eps {
						snap, err := s.LoadSnapshot(e)
						if err != nil {
							violation.Store(fmt.Sprintf("snapshot epoch %d is recorded in the metadata store but cannot be loaded: %v", e, err))
							break
						}
						for _, f := range segmentFilesOf(snap) {
							if _, err := os.Stat(f); err != nil {
								violation.Store(fmt.Sprintf("segment file %s of recorded epoch %d is missing", f, e))
							}
						}
						_ = snap.Close()
					}
				}
				if r, err := s.Reader(); err == nil {
					for _, f := range segmentFilesOf(r) {
						if _, err := os.Stat(f); err != nil {
							violation.Store(fmt.Sprintf("segment file %s used by the current root is missing", f))
						}
					}
					_ = r.Close()
				}
				c12Mu.Unlock()
				atomic.AddInt64(&samples, 1)
				time.Sleep(2 * time.Millisecond)
			}
		}()
		type held struct {
			r     interface{ Close() error }
			files []string
		}
		var readers []held
		merges, cancelledMerges := 0, 0
		fail := func(format string, a ...interface{}) {
			stopSampler()
			wg.Wait()
			t.Fatalf(format, a...)
		}
		for i, ops := range batches {
			if err := c03ApplyBatch(idx, i+1, ops, false); err != nil {
				fail("batch %d: %v", i+1, err)
			}
			switch rapid.IntRange(0, 19).Draw(t, "side") {
			case 0:
				ctx, cancel := context.WithTimeout(context.Background(), 60*time.Second)
				_ = WaitPersisted(idx, 30*time.Second)
				if err := s.ForceMerge(ctx, &mergeplan.SingleSegmentMergePlanOptions); err != nil {
					cancel()
					fail("force merge: %v", err)
				}
				cancel()
				merges++
			case 19:
				// a forced merge that its caller gives up on (context cancelled before or while it
				// runs): whatever it held must be released again
				_ = WaitPersisted(idx, 30*time.Second)
				ctx, cancel := context.WithCancel(context.Background())
				if d := rapid.SampledFrom([]int{0, 0, 50, 500, 5000}).Draw(t, "cancelAfterUS"); d == 0 {
					cancel()
				} else {
					time.AfterFunc(time.Duration(d)*time.Microsecond, cancel)
				}
				_ = s.ForceMerge(ctx, &mergeplan.SingleSegmentMergePlanOptions)
				cancel()
				cancelledMerges++
			case 1, 2:
				if len(readers) < 3 {
					if r, err := s.Reader(); err == nil {
						readers = append(readers, held{r, segmentFilesOf(r)})
					}
				}
			case 3:
				if len(readers) > 0 {
					_ = readers[0].r.Close()
					readers = readers[1:]
				}
			}
			if _, open := KnownOpen("C12", c12KnownReaderFile); !open {
				for _, h := range readers {
					for _, f := range h.files {
						if _, err := os.Stat(f); err != nil {
							fail("segment file %s is used by an open reader but is gone (after batch %d)", f, i+1)
						}
					}
				}
			} else if len(readers) > 0 {
				ev.Exclude(c12KnownReaderFile)
			}
			if v := violation.Load(); v != nil {
				fail("config %s after batch %d: %s", cfg, i+1, v)
			}
		}
		for _, h := range readers {
			_ = h.r.Close()
		}
		// quiescence
		if err := waitSettled(s, 60*time.Second); err != nil {
			fail("harness: %v", err)
		}
		if err := idx.SetInternal([]byte("wake"), []byte("up")); err != nil {
			fail("wake-up write: %v", err)
		}
		if err := waitSettled(s, 60*time.Second); err != nil {
			fail("harness: %v", err)
		}
		time.Sleep(100 * time.Millisecond) // the purge pass follows the last persist
		stopSampler()
		wg.Wait()
		if v := violation.Load(); v != nil {
			t.Fatalf("config %s: %s", cfg, v)
		}
		if e, ok := c12AsyncErrs.Load(storeDir); ok {
			t.Fatalf("config %s: a background task reported an error: %v", cfg, e)
		}
		var quiescenceMsg string
		for attempt := 0; attempt < 40; attempt++ {
			quiescenceMsg = ""
			refs, err := func() (map[string]bool, error) {
				// (read through scorch: root.bolt is locked by the open index; listing and
				// loading must not straddle a purge pass, exactly as in the sampler)
				c12Mu.Lock()
				defer c12Mu.Unlock()
				eps, err := s.RootBoltSnapshotEpochs()
				if err != nil {
					return nil, err
				}
				refs := map[string]bool{}
				for _, e := range eps {
					snap, err := s.LoadSnapshot(e)
					if err != nil {
						return nil, fmt.Errorf("epoch %d does not load: %v", e, err)
					}
					for _, f := range segmentFilesOf(snap) {
						refs[filepath.Base(f)] = true
					}
					_ = snap.Close()
				}
				if len(eps) > cfg.KeepSnapshots+1 {
					quiescenceMsg = fmt.Sprintf("%d snapshots are retained in the metadata store, numSnapshotsToKeep=%d (epochs %v)", len(eps), cfg.KeepSnapshots, eps)
				}
				return refs, nil
			}()
			if err != nil {
				t.Fatalf("config %s at quiescence: %v", cfg, err)
			}
			files, _ := filepath.Glob(filepath.Join(storeDir, "*.zap"))
			for _, f := range files {
				if !refs[filepath.Base(f)] && quiescenceMsg == "" {
					quiescenceMsg = fmt.Sprintf("segment file %s is on disk but no retained snapshot names it (files %d, referenced %d)", filepath.Base(f), len(files), len(refs))
				}
			}
			for f := range refs {
				if _, err := os.Stat(filepath.Join(storeDir, f)); err != nil {
					t.Fatalf("config %s at quiescence: file %s is named by a retained snapshot but missing", cfg, f)
				}
			}
			if m := s.StatsMap(); quiescenceMsg == "" && statU64(m, "CurFilesIneligibleForRemoval") != 0 {
				quiescenceMsg = fmt.Sprintf("%d files are still marked ineligible for removal", statU64(m, "CurFilesIneligibleForRemoval"))
			}
			if quiescenceMsg == "" {
				break
			}
			time.Sleep(50 * time.Millisecond) // loading snapshots above re-marks epochs; give the purger its pass
		}
		if quiescenceMsg != "" {
			t.Fatalf("config %s, %d batches, at quiescence (2 s after background work settled): %s", cfg, len(batches), quiescenceMsg)
		}
		if err := idx.Close(); err != nil {
			t.Fatalf("close: %v", err)
		}
		closed = true
		if open := openFilesUnder(idxDir); len(open) > 0 {
			t.Fatalf("config %s: after Close these files of the index are still open: %v", cfg, open)
		}
		purges := atomic.LoadInt64(&c12Purges) - purges0
		nt := purges >= 3 && merges >= 1 && atomic.LoadInt64(&samples) >= 1
		cl := []string{fmt.Sprintf("keep:%d", cfg.KeepSnapshots)}
		if cancelledMerges > 0 {
			cl = append(cl, "forced-merge-abandoned-by-its-caller")
		}
		if cfg.Workers > 1 {
			cl = append(cl, "multi-worker")
		}
		canon := map[string]interface{}{"cfg": cfg, "batches": batches, "seed": seed}
		smp := map[string]interface{}{"cfg": cfg, "nbatches": len(batches), "delay_seed": seed, "purger_passes": purges, "forced_merges": merges, "samples": atomic.LoadInt64(&samples)}
		ev.Case(nt, canon, smp, cl...)
	})
}

// TestC12KillReopen: wall-clock kills on purge-heavy workloads; the index must reopen and
// must not be older than the last acknowledged batch.
func TestC12KillReopen(t *testing.T) {
	ev := Ev("C12")
	checkPropN(t, "C12", 16, func(t *rapid.T) {
		cfg := genC03Config(t)
		cfg.KeepSnapshots = rapid.SampledFrom([]int{1, 1, 2}).Draw(t, "keepN")
		cfg.MaxSegPerTier = rapid.SampledFrom([]int{1, 2}).Draw(t, "tier2")
		batches := genC03Workload(t, 25, 60)
		extra := genC03Workload(t, 1, 1)
		for k := 0; k < 3; k++ {
			crash := c03Crash{Kind: "wallclock", AfterUS: rapid.IntRange(1000, 400000).Draw(t, "killAfter"), Garbage: "leave"}
			msg, killed, p, lastSubmit, herr := c03RunOne(cfg, batches, extra, crash, k)
			if herr != nil {
				t.Fatalf("harness: %v", herr)
			}
			if msg != "" {
				writeReplayJSON("C12", map[string]interface{}{"cfg": cfg, "batches": batches, "extra": extra, "crash": crash, "garbage_seed": k})
				t.Fatalf("config %s, kill after %dus: %s", cfg, crash.AfterUS, msg)
			}
			ev.Case(killed && p < lastSubmit, map[string]interface{}{"cfg": cfg, "batches": batches, "crash": crash}, nil, "kill-reopen")
		}
	})
}

var _ = bleve.NewMatchAllQuery

const c12KnownReaderFile = "C12/reader-held-file-unlinked"

// TestC12KnownReaderFile: deterministic reproducer - a reader holds a root whose file
// segment is later merged away; once the snapshots naming the file are purged the file is
// unlinked although the reader is still open.
func TestC12KnownReaderFile(t *testing.T) {
	dir, err := os.MkdirTemp(os.Getenv("VERIF_SCRATCH"), "c12known.")
	if err != nil {
		t.Fatalf("harness: %v", err)
	}
	defer os.RemoveAll(dir)
	cfg := Config{Engine: EngScorchDisk, KeepSnapshots: 1, UnsafeBatch: true}
	InstallHook(HookPlan{})
	var armed atomic.Bool
	gate := make(chan struct{})
	SetOnPoint(func(p string) {
		if p == "persist.begin" && armed.Load() {
			<-gate
		}
	})
	defer func() { SetOnPoint(nil); ClearHook() }()
	idx, err := cfg.Create(filepath.Join(dir, "idx"), WorldMapping())
	if err != nil {
		t.Fatalf("harness: %v", err)
	}
	defer idx.Close()
	s := ScorchOf(idx)
	doc := func(w string) map[string]interface{} { return map[string]interface{}{"t": w} }
	_ = idx.Index("d0", doc("a"))
	_ = idx.Index("d1", doc("b"))
	if err := waitSettled(s, 30*time.Second); err != nil {
		t.Fatalf("harness: %v", err)
	}
	// the reader is taken on a root that is never persisted itself: the persister is held
	// at the start of one round while two more batches go in, and persists the later root
	armed.Store(true)
	_ = idx.Index("dx", doc("x"))
	time.Sleep(50 * time.Millisecond)
	_ = idx.Index("d2", doc("c"))
	r, err := s.Reader()
	if err != nil {
		t.Fatalf("harness: %v", err)
	}
	defer r.Close()
	_ = idx.Index("d3", doc("d"))
	armed.Store(false)
	close(gate)
	files := segmentFilesOf(r)
	if len(files) == 0 {
		t.Fatalf("harness: the reader holds no file segment")
	}
	for i := 0; i < 6; i++ {
		_ = idx.Index("d0", doc(fmt.Sprintf("x%d", i)))
		_ = idx.Index("d1", doc(fmt.Sprintf("y%d", i)))
		ctx, cancel := context.WithTimeout(context.Background(), 30*time.Second)
		_ = WaitPersisted(idx, 30*time.Second)
		_ = s.ForceMerge(ctx, &mergeplan.SingleSegmentMergePlanOptions)
		cancel()
		_ = waitSettled(s, 30*time.Second)
		time.Sleep(50 * time.Millisecond)
	}
	missing := ""
	for _, f := range files {
		if _, err := os.Stat(f); err != nil {
			missing = f
		}
	}
	if missing == "" {
		return
	}
	if k, open := KnownOpen("C12", c12KnownReaderFile); open {
		ReportKnown(k)
		return
	}
	t.Fatalf("segment file %s is still used by an open reader but has been removed from disk", missing)
}
