//go:build verif

package harness

import (
	"bufio"
	"bytes"
	"encoding/json"
	"fmt"
	"os"
	"os/exec"
	"path/filepath"
	"sort"
	"strconv"
	"strings"
	"syscall"
	"testing"
	"time"

	"github.com/blevesearch/bleve/v2/util"
	bolt "go.etcd.io/bbolt"
	"pgregory.net/rapid"
)

// C03 — acknowledged batches survive a crash; every batch is all-or-nothing.

type childResult struct {
	Lines    []string
	Killed   bool // died by SIGKILL
	ExitCode int
	TimedOut bool
	Stderr   string
}

// runChild re-executes the test binary in child mode.  killAfter > 0 sends SIGKILL
// from the parent after that delay (wall-clock crash).
func runChild(spec c03Spec, killAfter time.Duration, limit time.Duration) (*childResult, error) {
	bin := os.Getenv("VERIF_BIN")
	if bin == "" {
		var err error
		if bin, err = os.Executable(); err != nil {
			return nil, err
		}
	}
	f, err := os.CreateTemp(os.Getenv("VERIF_SCRATCH"), "spec-*.json")
	if err != nil {
		return nil, err
	}
	defer os.Remove(f.Name())
	b, _ := json.Marshal(spec)
	f.Write(b)
	f.Close()
	cmd := exec.Command(bin)
	cmd.Env = append(os.Environ(), "VERIF_CHILD=c03", "VERIF_CHILD_SPEC="+f.Name())
	var errb bytes.Buffer
	cmd.Stderr = &errb
	pipe, err := cmd.StdoutPipe()
	if err != nil {
		return nil, err
	}
	if err := cmd.Start(); err != nil {
		return nil, err
	}
	res := &childResult{}
	created := make(chan struct{}, 1)
	linesDone := make(chan struct{})
	go func() {
		sc := bufio.NewScanner(pipe)
		sc.Buffer(make([]byte, 1<<20), 1<<26)
		for sc.Scan() {
			l := sc.Text()
			res.Lines = append(res.Lines, l)
			if l == "CREATED" || l == "CREATE-RETURNED" {
				select {
				case created <- struct{}{}:
				default:
				}
			}
		}
		close(linesDone)
	}()
	done := make(chan error, 1)
	go func() { <-linesDone; done <- cmd.Wait() }()
	var kill <-chan time.Time
	timeout := time.After(limit)
wait:
	for {
		select {
		case <-done:
			break wait
		case <-created:
			// the wall clock of a kill plan starts when index creation is complete
			if killAfter > 0 {
				kill = time.After(killAfter)
			}
		case <-kill:
			_ = cmd.Process.Signal(syscall.SIGKILL)
			kill = nil
		case <-timeout:
			res.TimedOut = true
			// capture where it hangs, then kill
			_ = cmd.Process.Signal(syscall.SIGQUIT)
			time.Sleep(300 * time.Millisecond)
			_ = cmd.Process.Kill()
			<-done
			break wait
		}
	}
	if ws, ok := cmd.ProcessState.Sys().(syscall.WaitStatus); ok {
		res.Killed = ws.Signaled() && ws.Signal() == syscall.SIGKILL
		res.ExitCode = ws.ExitStatus()
	}
	res.Stderr = errb.String()
	return res, nil
}

func lastNum(lines []string, prefix string) int {
	n := 0
	for _, l := range lines {
		if strings.HasPrefix(l, prefix+" ") {
			if v, err := strconv.Atoi(strings.TrimPrefix(l, prefix+" ")); err == nil && v > n {
				n = v
			}
		}
	}
	return n
}

// referencedZaps reads root.bolt directly and returns the segment files named by any snapshot.
func referencedZaps(storeDir string) (map[string]bool, error) {
	db, err := bolt.Open(filepath.Join(storeDir, "root.bolt"), 0o600, &bolt.Options{ReadOnly: true, Timeout: 5 * time.Second})
	if err != nil {
		return nil, err
	}
	defer db.Close()
	refs := map[string]bool{}
	err = db.View(func(tx *bolt.Tx) error {
		snaps := tx.Bucket(util.BoltSnapshotsBucket)
		if snaps == nil {
			return nil
		}
		return snaps.ForEach(func(sk, _ []byte) error {
			sb := snaps.Bucket(sk)
			if sb == nil {
				return nil
			}
			return sb.ForEach(func(k, _ []byte) error {
				seg := sb.Bucket(k)
				if seg == nil {
					return nil
				}
				if p := seg.Get(util.BoltPathKey); p != nil {
					refs[string(p)] = true
				}
				return nil
			})
		})
	})
	return refs, err
}

// genC03Workload: 3-12 batches of index/delete ops; every indexed doc carries n=[seq].
func genC03Workload(t *rapid.T, min, max int) [][]Op {
	nb := rapid.IntRange(min, max).Draw(t, "nbatches")
	// a small id pool makes later batches rewrite everything an earlier batch wrote (whole
	// segments become obsolete while they are being persisted or merged)
	pool := DocIDs[:rapid.SampledFrom([]int{2, 3, 8, 8}).Draw(t, "idpool")]
	var bs [][]Op
	for i := 1; i <= nb; i++ {
		n := rapid.IntRange(1, 4).Draw(t, "nops")
		var ops []Op
		for j := 0; j < n; j++ {
			id := rapid.SampledFrom(pool).Draw(t, "id")
			if rapid.IntRange(0, 3).Draw(t, "del") == 0 {
				ops = append(ops, Op{Kind: OpDelete, ID: id})
			} else {
				d := Doc{"t": {S: []string{genWords(t, "w", 1, 3)}}, "n": {N: []float64{float64(i)}, NS: []string{strconv.Itoa(i)}}}
				ops = append(ops, Op{Kind: OpIndex, ID: id, Doc: d})
			}
		}
		bs = append(bs, ops)
	}
	return bs
}

func modelAfter(batches [][]Op, p int, first int) *State {
	m := NewState()
	for i := 0; i < p && i < len(batches); i++ {
		m.Apply(batches[i])
		m.Internal["seq"] = strconv.Itoa(first + i)
	}
	return m
}

func genC03Config(t *rapid.T) Config {
	c := Config{Engine: EngScorchDisk, UnsafeBatch: rapid.Bool().Draw(t, "unsafe")}
	c.Workers = rapid.SampledFrom([]int{0, 1, 2, 4}).Draw(t, "workers")
	if c.Workers > 1 {
		c.MaxMemMerge = rapid.SampledFrom([]int{1, 4096}).Draw(t, "maxmem")
	} else if c.Workers == 1 {
		c.MaxMemMerge = rapid.SampledFrom([]int{0, 1, 4096}).Draw(t, "maxmem")
	}
	c.NapMS = rapid.SampledFrom([]int{0, 0, 2}).Draw(t, "nap")
	c.MaxSegPerTier = rapid.SampledFrom([]int{1, 2, 2, 10}).Draw(t, "tier")
	c.FloorSegSize = rapid.SampledFrom([]int{1, 2000}).Draw(t, "floor")
	c.SegPerMerge = rapid.SampledFrom([]int{2, 10}).Draw(t, "permerge")
	c.KeepSnapshots = rapid.SampledFrom([]int{1, 1, 2, 3}).Draw(t, "keep")
	return c
}

type c03Crash struct {
	Kind    string `json:"kind"` // point | wallclock | none
	Point   string `json:"point,omitempty"`
	K       int    `json:"k,omitempty"`
	AfterUS int    `json:"after_us,omitempty"`
	Garbage string `json:"garbage"` // leave | truncate | overwrite | delete
	// Wait: hook points at which persister and merger wait for the writer's next batch
	Wait []string `json:"wait,omitempty"`
}

// c03RunOne executes one (workload, config, crash plan) and checks the recovery oracle.
// Returns a violation message ("" when the property held) and descriptive classes.
func c03RunOne(cfg Config, batches, extra [][]Op, crash c03Crash, garbageSeed int) (msg string, killed bool, p int, lastSubmit int, harnessErr error) {
	dir, err := os.MkdirTemp(os.Getenv("VERIF_SCRATCH"), "c03.")
	if err != nil {
		return "", false, 0, 0, err
	}
	defer os.RemoveAll(dir)
	idxDir := filepath.Join(dir, "idx")
	spec := c03Spec{Mode: "run", Dir: idxDir, Cfg: cfg, Batches: batches, FirstID: 1}
	var killAfter time.Duration
	switch crash.Kind {
	case "point":
		spec.Hook = HookPlan{Mode: "crash", CrashPoint: crash.Point, CrashK: crash.K}
		spec.Settle = true
	case "wallclock":
		killAfter = time.Duration(crash.AfterUS) * time.Microsecond
		spec.Settle = true
	}
	if len(crash.Wait) > 0 {
		if spec.Hook.Mode == "" {
			spec.Hook.Mode = "count"
		}
		spec.Hook.WaitPoints, spec.Hook.WaitCapUS = crash.Wait, 5000
	}
	res, err := runChild(spec, killAfter, 90*time.Second)
	if err != nil {
		return "", false, 0, 0, err
	}
	if res.TimedOut {
		return fmt.Sprintf("the workload process did not finish within 90s (crash plan %s); stderr tail: %s", canonJSON(crash), tailStr(res.Stderr, 1500)), false, 0, 0, nil
	}
	if !res.Killed && res.ExitCode != 0 {
		return fmt.Sprintf("the workload process failed on its own: exit %d, output %v, stderr %s", res.ExitCode, res.Lines, tailStr(res.Stderr, 800)), false, 0, 0, nil
	}
	lastSubmit = lastNum(res.Lines, "SUBMIT")
	lastAck := lastNum(res.Lines, "ACK")
	lastPersisted := lastNum(res.Lines, "PERSISTED")
	floor := lastPersisted
	if !cfg.UnsafeBatch && lastAck > floor {
		floor = lastAck
	}
	if !res.Killed { // ran to a clean Close
		if cfg.UnsafeBatch {
			floor = lastPersisted
		} else {
			floor = len(batches)
		}
	}
	// garbage in files that no committed snapshot names
	storeDir := filepath.Join(idxDir, "store")
	if res.Killed && crash.Garbage != "leave" {
		if refs, err := referencedZaps(storeDir); err == nil {
			files, _ := filepath.Glob(filepath.Join(storeDir, "*.zap"))
			sort.Strings(files)
			for i, f := range files {
				if refs[filepath.Base(f)] {
					continue
				}
				switch crash.Garbage {
				case "truncate":
					if st, err := os.Stat(f); err == nil {
						_ = os.Truncate(f, st.Size()*int64((garbageSeed+i)%7)/7)
					}
				case "overwrite":
					if st, err := os.Stat(f); err == nil {
						junk := bytes.Repeat([]byte{byte(garbageSeed + i), 0xff, 0x00, 0x5a}, int(st.Size()/4)+1)
						_ = os.WriteFile(f, junk[:st.Size()], 0o600)
					}
				case "delete":
					_ = os.Remove(f)
				}
			}
		}
	}
	// reopen + dump in a second process
	dres, err := runChild(c03Spec{Mode: "dump", Dir: idxDir, Cfg: cfg, Extra: extra, FirstID: len(batches) + 1}, 0, 90*time.Second)
	if err != nil {
		return "", res.Killed, 0, lastSubmit, err
	}
	if dres.TimedOut {
		return fmt.Sprintf("reopening after %s hung (>90s); stderr tail: %s", canonJSON(crash), tailStr(dres.Stderr, 2500)), res.Killed, 0, lastSubmit, nil
	}
	var d1, d2 *c03Dump
	for _, l := range dres.Lines {
		for tag, dst := range map[string]**c03Dump{"DUMP1 ": &d1, "DUMP2 ": &d2} {
			if strings.HasPrefix(l, tag) {
				var d c03Dump
				if err := json.Unmarshal([]byte(strings.TrimPrefix(l, tag)), &d); err == nil {
					*dst = &d
				}
			}
		}
	}
	if dres.ExitCode != 0 || dres.Killed || d1 == nil || d2 == nil {
		return fmt.Sprintf("reopening after %s failed: exit %d killed=%v output %v stderr %s", canonJSON(crash), dres.ExitCode, dres.Killed, truncLines(dres.Lines), tailStr(dres.Stderr, 1500)), res.Killed, 0, lastSubmit, nil
	}
	if d1.Err != "" {
		return "reading the reopened index failed: " + d1.Err, res.Killed, 0, lastSubmit, nil
	}
	p = d1.Seq
	if p < floor || p > lastSubmit {
		return fmt.Sprintf("reopened index is at batch %d, but batches up to %d were acknowledged/persisted and %d submitted (acks %d, persisted callbacks %d, unsafe=%v)", p, floor, lastSubmit, lastAck, lastPersisted, cfg.UnsafeBatch), res.Killed, p, lastSubmit, nil
	}
	if diff := d1.Obs.DiffModel(modelAfter(batches, p, 1), DocIDs, []string{"seq"}); diff != "" {
		return fmt.Sprintf("reopened index claims batch %d but does not equal the state after batches 1..%d: %s", p, p, diff), res.Killed, p, lastSubmit, nil
	}
	// further writes, clean close, reopen
	m2 := modelAfter(batches, p, 1)
	for i, ops := range extra {
		m2.Apply(ops)
		m2.Internal["seq"] = strconv.Itoa(len(batches) + 1 + i)
	}
	if d2.Err != "" {
		return "reading the index after further writes failed: " + d2.Err, res.Killed, p, lastSubmit, nil
	}
	if diff := d2.Obs.DiffModel(m2, DocIDs, []string{"seq"}); diff != "" {
		return fmt.Sprintf("after recovery at batch %d, %d further batches, Close and reopen: %s", p, len(extra), diff), res.Killed, p, lastSubmit, nil
	}
	return "", res.Killed, p, lastSubmit, nil
}

func tailStr(s string, n int) string {
	if len(s) > n {
		return "..." + s[len(s)-n:]
	}
	return s
}

func truncLines(l []string) []string {
	var out []string
	for _, x := range l {
		if len(x) > 300 {
			x = x[:300] + "..."
		}
		out = append(out, x)
	}
	return out
}

func c03CountTable(cfg Config, batches [][]Op, wait []string) (map[string]int, time.Duration, error) {
	dir, err := os.MkdirTemp(os.Getenv("VERIF_SCRATCH"), "c03count.")
	if err != nil {
		return nil, 0, err
	}
	defer os.RemoveAll(dir)
	t0 := time.Now()
	res, err := runChild(c03Spec{Mode: "count", Dir: filepath.Join(dir, "idx"), Cfg: cfg, Batches: batches, FirstID: 1, Hook: HookPlan{Mode: "count", WaitPoints: wait, WaitCapUS: 5000}}, 0, 90*time.Second)
	if err != nil {
		return nil, 0, err
	}
	if res.ExitCode != 0 || res.TimedOut {
		return nil, 0, fmt.Errorf("count run failed: exit %d timedout=%v %v %s", res.ExitCode, res.TimedOut, res.Lines, tailStr(res.Stderr, 500))
	}
	tbl := map[string]int{}
	for _, l := range res.Lines {
		var p string
		var n int
		if _, err := fmt.Sscanf(l, "COUNT %s %d", &p, &n); err == nil {
			tbl[p] = n
		}
	}
	return tbl, time.Since(t0), nil
}

func TestC03Crash(t *testing.T) {
	ev := Ev("C03")
	ev.Level = "fault_enumeration"
	ev.SetRule("rapid draws (workload of 3-12 batches over 8 ids, each batch stamping seq=i in an internal key and n=i on every document it writes; scorch disk config: safe/unsafe batch, persister workers/in-memory merge size, merge plan options, snapshots to keep). A dry run in count mode gives the occurrence table of the 26 instrumented points (batch introduction, introducer swaps, persist, in-memory merge, file merge, purge, zap removal); " +
		"quick: per workload 6 crash plans = (point,k) drawn over points then occurrences, wall-clock SIGKILL at a drawn instant, or clean Close; thorough: every (point,k) of the table is executed (exhaustive per workload) plus wall-clock kills. After the kill every *.zap not named by a snapshot in the surviving root.bolt is left/truncated/overwritten/deleted. " +
		"The workload runs in a child process (SUBMIT/ACK/PERSISTED on an unbuffered pipe); a second child reopens and dumps. Oracle: reopened state == model(prefix p) for exactly one p (internal key seq) with lastAck (safe) / last persisted callback (unsafe) <= p <= lastSubmit, no partial batch; then 3 more batches, clean Close, reopen == model again; " +
		"in half of the workloads persister and merger wait at 1-4 drawn window points for the writer's next batch (5 ms cap); workloads use an id pool of 2, 3 or 8 ids; " +
		"crash-image mode: the persister is parked, 2-4 unsafe batches pile up, one persister round is stopped after its in-memory merge is built, 1-2 batches are written into that window, the round is stopped again at a drawn point after its bolt commit, the index directory is copied there and the copy must open as a prefix state >= the batches whose persisted callback had fired, accept a write and reopen (non-trivial there = a batch landed inside the window); " +
		"non-trivial = the child died by SIGKILL and (p < lastSubmit or the kill point lies in persist/merge/purge); distinct = hash of (config, workload, crash plan)")
	ev.Assume("a killed process keeps its page cache: loss of unsynced root.bolt pages (power loss) is not emulated; garbage is injected only into files no committed snapshot names")
	exhaustive := thorough()
	nWorkloads := 24
	if exhaustive {
		nWorkloads = 3
	}
	allExhaustive := true
	checkPropN(t, "C03", nWorkloads, func(t *rapid.T) {
		cfg := genC03Config(t)
		batches := genC03Workload(t, 3, 12)
		extra := genC03Workload(t, 3, 3)
		for i := range extra {
			for j := range extra[i] {
				if extra[i][j].Kind == OpIndex {
					v := float64(len(batches) + 1 + i)
					extra[i][j].Doc["n"] = &Field{N: []float64{v}, NS: []string{strconv.Itoa(int(v))}}
				}
			}
		}
		// in half of the workloads persister and merger wait inside 1-4 drawn windows for the
		// writer's next batch, so that batches are introduced in the middle of persists and
		// in-memory merges - and the process is killed in the middle of that
		var wait []string
		if rapid.Bool().Draw(t, "waitWindows") {
			wait = rapid.SliceOfNDistinct(rapid.SampledFrom(RendezvousPoints), 1, 4, rapid.ID[string]).Draw(t, "wait")
			sort.Strings(wait)
		}
		tbl, dur, err := c03CountTable(cfg, batches, wait)
		if err != nil {
			t.Fatalf("harness: %v", err)
		}
		points := sortedPoints(tbl)
		var plans []c03Crash
		garbageKinds := []string{"leave", "truncate", "overwrite", "delete"}
		if exhaustive {
			for _, p := range points {
				for k := 1; k <= tbl[p]; k++ {
					plans = append(plans, c03Crash{Kind: "point", Point: p, K: k, Garbage: garbageKinds[(k+len(p))%4], Wait: wait})
				}
			}
			for i := 0; i < 6; i++ {
				plans = append(plans, c03Crash{Kind: "wallclock", AfterUS: 1 + rapid.IntRange(0, int(dur.Microseconds())).Draw(t, "killAfter"), Garbage: garbageKinds[i%4], Wait: wait})
			}
			plans = append(plans, c03Crash{Kind: "none", Garbage: "leave"})
		} else {
			for i := 0; i < 6; i++ {
				g := rapid.SampledFrom(garbageKinds).Draw(t, "garbage")
				switch c := rapid.IntRange(0, 9).Draw(t, "crashKind"); {
				case c < 7 && len(points) > 0:
					p := rapid.SampledFrom(points).Draw(t, "point")
					plans = append(plans, c03Crash{Kind: "point", Point: p, K: rapid.IntRange(1, tbl[p]).Draw(t, "k"), Garbage: g, Wait: wait})
				case c < 9:
					plans = append(plans, c03Crash{Kind: "wallclock", AfterUS: 1 + rapid.IntRange(0, int(dur.Microseconds())).Draw(t, "killAfter"), Garbage: g, Wait: wait})
				default:
					plans = append(plans, c03Crash{Kind: "none", Garbage: "leave"})
				}
			}
			allExhaustive = false
		}
		for pi, crash := range plans {
			msg, killed, p, lastSubmit, herr := c03RunOne(cfg, batches, extra, crash, pi)
			if herr != nil {
				t.Fatalf("harness: %v", herr)
			}
			if msg != "" {
				writeReplayJSON("C03", map[string]interface{}{"cfg": cfg, "batches": batches, "extra": extra, "crash": crash, "garbage_seed": pi})
				t.Fatalf("config %s, crash plan %s: %s\nworkload %s", cfg, canonJSON(crash), msg, canonJSON(batches))
			}
			inBackground := strings.HasPrefix(crash.Point, "persist") || strings.HasPrefix(crash.Point, "merge") || strings.HasPrefix(crash.Point, "purge") || strings.HasPrefix(crash.Point, "intro.persist") || strings.HasPrefix(crash.Point, "intro.merge")
			nt := killed && (p < lastSubmit || inBackground)
			cl := []string{"crash:" + crash.Kind, "garbage:" + crash.Garbage}
			if crash.Kind == "point" {
				cl = append(cl, "point:"+crash.Point)
			}
			if killed {
				cl = append(cl, "killed")
			}
			if cfg.UnsafeBatch {
				cl = append(cl, "unsafe-batch")
			} else {
				cl = append(cl, "safe-batch")
			}
			if len(crash.Wait) > 0 {
				cl = append(cl, "background-waits-for-writer")
			}
			canon := map[string]interface{}{"cfg": cfg, "batches": batches, "crash": crash}
			sample := map[string]interface{}{"cfg": cfg, "nbatches": len(batches), "crash": crash, "killed": killed, "recovered_prefix": p, "last_submitted": lastSubmit, "points_in_table": len(points)}
			ev.Case(nt, canon, sample, cl...)
		}
	})
	if exhaustive && allExhaustive {
		ev.mu.Lock()
		ev.Extra["exhaustive_per_workload"] = true
		ev.mu.Unlock()
	}
}

// writeReplayJSON saves a non-rapid reproduction next to the run (the driver copies
// replay-*.json files into /verif/replays/<prop>/).
func writeReplayJSON(prop string, v interface{}) {
	b, _ := json.MarshalIndent(v, "", " ")
	_ = os.WriteFile(fmt.Sprintf("replay-%s-%d.json", prop, time.Now().UnixNano()), b, 0o644)
}

// TestC03Replay re-runs a saved crash case (VERIF_REPLAY=<file>), bypassing rapid.
func TestC03Replay(t *testing.T) {
	path := os.Getenv("VERIF_REPLAY")
	if path == "" {
		t.Skip("no VERIF_REPLAY")
	}
	raw, err := os.ReadFile(path)
	if err != nil {
		t.Fatalf("harness: %v", err)
	}
	var c struct {
		Cfg     Config   `json:"cfg"`
		Batches [][]Op   `json:"batches"`
		Extra   [][]Op   `json:"extra"`
		Crash   c03Crash `json:"crash"`
		Seed    int      `json:"garbage_seed"`
	}
	if err := json.Unmarshal(raw, &c); err != nil {
		t.Fatalf("harness: %v", err)
	}
	for _, bs := range [][][]Op{c.Batches, c.Extra} {
		for i := range bs {
			for j := range bs[i] {
				fixDocAfterJSON(bs[i][j].Doc)
			}
		}
	}
	for i := 0; i < 5; i++ {
		msg, _, _, _, herr := c03RunOne(c.Cfg, c.Batches, c.Extra, c.Crash, c.Seed)
		if herr != nil {
			t.Fatalf("harness: %v", herr)
		}
		if msg != "" {
			t.Fatalf("crash plan %s: %s", canonJSON(c.Crash), msg)
		}
	}
}

const c03KnownUnsafeCreate = "C03/unsafe-create-not-durable"

// TestC03KnownUnsafeCreate: with unsafe_batch, NewUsing returns before the index mapping
// is persisted; a crash right after creation leaves an index that cannot be opened.
func TestC03KnownUnsafeCreate(t *testing.T) {
	dir, err := os.MkdirTemp(os.Getenv("VERIF_SCRATCH"), "c03known.")
	if err != nil {
		t.Fatalf("harness: %v", err)
	}
	defer os.RemoveAll(dir)
	cfg := Config{Engine: EngScorchDisk, UnsafeBatch: true}
	// stall the persister when it starts to persist the mapping snapshot; kill once NewUsing returned
	res, err := runChild(c03Spec{Mode: "create", Dir: filepath.Join(dir, "idx"), Cfg: cfg, Hook: HookPlan{Mode: "stall", CrashPoint: "persist.begin", CrashK: 1}}, time.Millisecond, 60*time.Second)
	if err != nil {
		t.Fatalf("harness: %v", err)
	}
	if !res.Killed {
		t.Fatalf("harness: creation child was not killed: %v %s", res.Lines, res.Stderr)
	}
	dres, err := runChild(c03Spec{Mode: "dump", Dir: filepath.Join(dir, "idx"), Cfg: cfg, FirstID: 1}, 0, 60*time.Second)
	if err != nil {
		t.Fatalf("harness: %v", err)
	}
	if dres.ExitCode == 0 {
		return // opens fine: the defect is gone
	}
	if k, open := KnownOpen("C03", c03KnownUnsafeCreate); open {
		ReportKnown(k)
		return
	}
	t.Fatalf("an unsafe_batch index whose creation call had returned cannot be opened after a crash: %v", dres.Lines)
}
