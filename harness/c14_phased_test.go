//go:build verif

package harness

import (
	"context"
	"fmt"
	"io"
	"path/filepath"
	"strconv"
	"sync"
	"testing"
	"time"

	"github.com/blevesearch/bleve/v2"
	"github.com/blevesearch/bleve/v2/index/scorch/mergeplan"
	index "github.com/blevesearch/bleve_index_api"
	"pgregory.net/rapid"
)

// C14, phased mode: one sequence of operations in which the harness owns the moments at which
// backups take their reader and at which they copy, relative to batches, persists, merges and
// purges.  A backup is started (its reader is taken) by one operation and allowed to copy by a
// later one; in between the persister can be held and released, batches written, merges forced
// and purge passes awaited.

// gatedDirectory blocks the first destination file until the gate is opened.
type gatedDirectory struct {
	index.Directory
	reached chan struct{}
	gate    chan struct{}
	once    *sync.Once
}

func (g gatedDirectory) GetWriter(filePath string) (io.WriteCloser, error) {
	g.once.Do(func() { close(g.reached) })
	<-g.gate
	return g.Directory.GetWriter(filePath)
}

type c14Copy struct {
	n        int
	dst      string
	gate     chan struct{}
	done     chan error
	ackStart int
	opened   bool
	startOp  int
	ackEnd   int
	err      error
}

func TestC14Phased(t *testing.T) {
	ev := Ev("C14")
	ev.SetRule(c14Rule)
	checkPropN(t, "C14", 60, func(t *rapid.T) {
		cfg := genC03Config(t)
		cfg.SegVersion = rapid.SampledFrom([]int{0, 0, 0, 11, 13, 15, 16}).Draw(t, "segv") // the backup must be readable with the source's segment format
		cfg.UnsafeBatch = true
		cfg.KeepSnapshots = rapid.SampledFrom([]int{1, 1, 2}).Draw(t, "keep")
		dir := TempDir(t)
		var mu sync.Mutex
		var holdCh chan struct{}
		InstallHook(HookPlan{})
		SetOnPoint(func(p string) {
			if p != "persist.begin" {
				return
			}
			mu.Lock()
			ch := holdCh
			mu.Unlock()
			if ch != nil {
				<-ch
			}
		})
		releasePersister := func() {
			mu.Lock()
			if holdCh != nil {
				close(holdCh)
				holdCh = nil
			}
			mu.Unlock()
		}
		idx, err := cfg.Create(filepath.Join(dir, "src"), WorldMapping())
		if err != nil {
			t.Fatalf("create: %v", err)
		}
		var copies []*c14Copy
		defer func() {
			releasePersister()
			for _, c := range copies {
				if !c.opened {
					close(c.gate)
					c.opened = true
					<-c.done
				}
			}
			SetOnPoint(nil)
			ClearHook()
			idx.Close()
		}()
		j := 0 // batches acknowledged
		var trace []string
		kinds := map[string]bool{}
		// the hook holds the persister of every index in the process, so copies are opened only
		// at the end, when nothing is held any more
		copyEnded := func(c *c14Copy, cerr error) {
			c.ackEnd, c.err = j, cerr
			if cerr != nil {
				t.Fatalf("config %s, operations %v: backup #%d (reader taken at operation %d after batch %d, copied after batch %d): CopyTo failed: %v", cfg, trace, c.n, c.startOp, c.ackStart, j, cerr)
			}
		}
		checkCopy := func(c *c14Copy) {
			desc := fmt.Sprintf("config %s, operations %v: backup #%d (reader taken at operation %d after batch %d, copied after batch %d)", cfg, trace, c.n, c.startOp, c.ackStart, c.ackEnd)
			cidx, err := bleve.Open(c.dst)
			if err != nil {
				t.Fatalf("%s: the backup does not open: %v", desc, err)
			}
			defer cidx.Close()
			p, msg := checkWriterPrefix(cidx, 0)
			if msg != "" {
				t.Fatalf("%s: %s", desc, msg)
			}
			if p < c.ackStart || p > c.ackEnd {
				t.Fatalf("%s: the copy is at batch %d", desc, p)
			}
		}
		nops := rapid.IntRange(4, 24).Draw(t, "nops")
		overlapEndedFirst := false
		for i := 0; i < nops; i++ {
			op := rapid.SampledFrom([]string{"batch", "batch", "batch", "hold", "release", "settle", "settle", "settle", "forcemerge", "forcemerge", "startcopy", "startcopy", "startcopy", "finishcopy", "finishcopy"}).Draw(t, "op")
			switch op {
			case "batch":
				j++
				b := idx.NewBatch()
				for k, id := range ownedIDs(0) {
					_ = b.Index(id, ownedDoc(0, j, k).ToBleve())
				}
				if rapid.Bool().Draw(t, "churn") {
					id := rapid.SampledFrom(DocIDs[:4]).Draw(t, "churnid")
					if rapid.Bool().Draw(t, "churndel") {
						b.Delete(id)
					} else {
						_ = b.Index(id, Doc{"t": {S: []string{genWords(t, "cw", 1, 2)}}}.ToBleve())
					}
				}
				b.SetInternal([]byte("w0"), []byte(strconv.Itoa(j)))
				if err := idx.Batch(b); err != nil {
					t.Fatalf("batch %d: %v", j, err)
				}
			case "hold":
				mu.Lock()
				if holdCh == nil {
					holdCh = make(chan struct{})
				}
				mu.Unlock()
			case "release":
				releasePersister()
			case "settle":
				releasePersister()
				if err := WaitPersisted(idx, 30*time.Second); err != nil {
					t.Fatalf("harness: %v", err)
				}
				n := HookCounts()["purge.end"]
				for dl := time.Now().Add(200 * time.Millisecond); HookCounts()["purge.end"] == n && time.Now().Before(dl); {
					time.Sleep(300 * time.Microsecond)
				}
			case "forcemerge":
				ctx, cancel := context.WithTimeout(context.Background(), 30*time.Second)
				err := ScorchOf(idx).ForceMerge(ctx, &mergeplan.SingleSegmentMergePlanOptions)
				cancel()
				if err != nil {
					t.Fatalf("config %s, operations %v: ForceMerge: %v", cfg, trace, err)
				}
			case "startcopy":
				open := 0
				for _, c := range copies {
					if !c.opened {
						open++
					}
				}
				if open >= 3 {
					op = "batch-skipped"
					break
				}
				c := &c14Copy{n: len(copies), dst: filepath.Join(dir, fmt.Sprintf("copy%d", len(copies))), gate: make(chan struct{}), done: make(chan error, 1), ackStart: j, startOp: i}
				gd := gatedDirectory{Directory: bleve.FileSystemDirectory(c.dst), reached: make(chan struct{}), gate: c.gate, once: &sync.Once{}}
				go func() { c.done <- idx.(bleve.IndexCopyable).CopyTo(gd) }()
				select {
				case <-gd.reached:
				case err := <-c.done:
					t.Fatalf("config %s, operations %v: CopyTo returned before writing anything: %v", cfg, trace, err)
				case <-time.After(30 * time.Second):
					t.Fatalf("config %s, operations %v: CopyTo did not reach its destination within 30s", cfg, trace)
				}
				copies = append(copies, c)
			case "finishcopy":
				var open []*c14Copy
				for _, c := range copies {
					if !c.opened {
						open = append(open, c)
					}
				}
				if len(open) == 0 {
					op = "finishcopy-skipped"
					break
				}
				c := open[rapid.IntRange(0, len(open)-1).Draw(t, "which")]
				if c != open[len(open)-1] {
					overlapEndedFirst = true
				}
				close(c.gate)
				c.opened = true
				var cerr error
				select {
				case cerr = <-c.done:
				case <-time.After(60 * time.Second):
					t.Fatalf("config %s, operations %v: CopyTo did not finish within 60s", cfg, trace)
				}
				op = fmt.Sprintf("finishcopy#%d", c.n)
				trace = append(trace, op)
				kinds["finishcopy"] = true
				copyEnded(c, cerr)
				continue
			}
			trace = append(trace, op)
			kinds[op] = true
		}
		releasePersister()
		for _, c := range copies {
			if !c.opened {
				close(c.gate)
				c.opened = true
				trace = append(trace, fmt.Sprintf("finishcopy#%d", c.n))
				copyEnded(c, <-c.done)
			}
		}
		for _, c := range copies {
			checkCopy(c)
		}
		if p, msg := checkWriterPrefix(idx, 0); msg != "" || p != j {
			t.Fatalf("config %s, operations %v: source index after all batches and backups is at batch %d of %d: %s", cfg, trace, p, j, msg)
		}
		nt := len(copies) >= 1 && kinds["batch"] && (kinds["forcemerge"] || kinds["settle"])
		cl := []string{"phased"}
		if len(copies) >= 2 {
			cl = append(cl, "phased-two-or-more-backups")
		}
		if overlapEndedFirst {
			cl = append(cl, "phased-an-earlier-backup-ended-while-a-later-one-was-open")
		}
		if kinds["hold"] {
			cl = append(cl, "phased-persister-held")
		}
		ev.Case(nt, map[string]interface{}{"cfg": cfg, "trace": trace}, map[string]interface{}{"cfg": cfg, "operations": trace, "backups": len(copies)}, cl...)
	})
}

// persisterGate parks the persister at one hook point; while held it passes only on tokens.
type persisterGate struct {
	mu     sync.Mutex
	point  string
	held   bool
	tokens chan struct{}
	parked int // times the persister blocked at the gate
	open   chan struct{}
}

func newPersisterGate(point string) *persisterGate {
	return &persisterGate{point: point, tokens: make(chan struct{}, 64), open: make(chan struct{})}
}

func (g *persisterGate) onPoint(p string) {
	if p != g.point {
		return
	}
	g.mu.Lock()
	if !g.held {
		g.mu.Unlock()
		return
	}
	g.parked++
	open := g.open
	g.mu.Unlock()
	select {
	case <-g.tokens:
	case <-open:
	}
}

func (g *persisterGate) hold() {
	g.mu.Lock()
	if !g.held {
		g.held = true
		g.open = make(chan struct{})
	}
	g.mu.Unlock()
}

func (g *persisterGate) release() {
	g.mu.Lock()
	if g.held {
		g.held = false
		close(g.open)
	}
	g.mu.Unlock()
}

func (g *persisterGate) parkedCount() int {
	g.mu.Lock()
	defer g.mu.Unlock()
	return g.parked
}

// round lets a parked persister pass once and waits until it parks again (or goes idle).
func (g *persisterGate) round(limit time.Duration) {
	n := g.parkedCount()
	g.tokens <- struct{}{}
	for dl := time.Now().Add(limit); g.parkedCount() == n && time.Now().Before(dl); {
		time.Sleep(200 * time.Microsecond)
	}
}

// TestC14Lifecycle walks one segment X through its life (written and in memory -> persisted while
// the root epoch is not -> followed by another batch -> everything persisted -> merged away ->
// purged -> purged again) and lets 1-3 backups take their reader at one drawn boundary of that
// walk and copy at a later one.
func TestC14Lifecycle(t *testing.T) {
	ev := Ev("C14")
	ev.SetRule(c14Rule)
	const nPos = 8 // boundaries p0..p7 around the seven steps
	checkPropN(t, "C14", 150, func(t *rapid.T) {
		cfg := genC03Config(t)
		cfg.SegVersion = rapid.SampledFrom([]int{0, 0, 0, 11, 13, 15, 16}).Draw(t, "segv") // the backup must be readable with the source's segment format
		cfg.UnsafeBatch = true
		cfg.NapMS = 0
		cfg.KeepSnapshots = rapid.SampledFrom([]int{1, 1, 1, 2}).Draw(t, "keep")
		gatePoint := rapid.SampledFrom([]string{"persist.afterNotifyWaiters", "persist.afterNotifyWaiters", "persist.begin"}).Draw(t, "gatePoint")
		nX := rapid.IntRange(1, 2).Draw(t, "nX")
		type plan struct {
			Start int `json:"start"`
			End   int `json:"end"`
		}
		var plans []plan
		for i, n := 0, rapid.IntRange(1, 3).Draw(t, "nbackups"); i < n; i++ {
			s := rapid.IntRange(0, nPos-2).Draw(t, "start")
			plans = append(plans, plan{s, rapid.IntRange(s, nPos-1).Draw(t, "end")})
		}
		dir := TempDir(t)
		g := newPersisterGate(gatePoint)
		InstallHook(HookPlan{})
		SetOnPoint(g.onPoint)
		idx, err := cfg.Create(filepath.Join(dir, "src"), WorldMapping())
		if err != nil {
			t.Fatalf("create: %v", err)
		}
		copies := make([]*c14Copy, len(plans))
		defer func() {
			g.release()
			for _, c := range copies {
				if c != nil && !c.opened {
					close(c.gate)
					c.opened = true
					<-c.done
				}
			}
			SetOnPoint(nil)
			ClearHook()
			idx.Close()
		}()
		j := 0
		desc := func() string {
			return fmt.Sprintf("config %s, persister parked at %s, %d batch(es) X, backups (reader taken at boundary, copy at boundary) %v of the walk [p0 X p1 one-persister-round p2 Y p3 settle p4 forced-merge p5 settle p6 Z+settle p7]", cfg, gatePoint, nX, plans)
		}
		batch := func() {
			j++
			b := idx.NewBatch()
			for k, id := range ownedIDs(0) {
				_ = b.Index(id, ownedDoc(0, j, k).ToBleve())
			}
			b.SetInternal([]byte("w0"), []byte(strconv.Itoa(j)))
			if err := idx.Batch(b); err != nil {
				t.Fatalf("%s: batch %d: %v", desc(), j, err)
			}
		}
		settle := func() {
			g.release()
			if err := WaitPersisted(idx, 30*time.Second); err != nil {
				t.Fatalf("harness: %v", err)
			}
			n := HookCounts()["purge.end"]
			for dl := time.Now().Add(200 * time.Millisecond); HookCounts()["purge.end"] == n && time.Now().Before(dl); {
				time.Sleep(300 * time.Microsecond)
			}
		}
		atBoundary := func(p int) {
			for i, pl := range plans { // copies end before new ones start at the same boundary
				if c := copies[i]; c != nil && !c.opened && pl.End == p {
					close(c.gate)
					c.opened = true
					select {
					case c.err = <-c.done:
					case <-time.After(60 * time.Second):
						t.Fatalf("%s: CopyTo #%d did not finish within 60s", desc(), i)
					}
					c.ackEnd = j
					if c.err != nil {
						t.Fatalf("%s: backup #%d: CopyTo failed: %v", desc(), i, c.err)
					}
				}
			}
			for i, pl := range plans {
				if pl.Start != p {
					continue
				}
				c := &c14Copy{n: i, dst: filepath.Join(dir, fmt.Sprintf("copy%d", i)), gate: make(chan struct{}), done: make(chan error, 1), ackStart: j}
				gd := gatedDirectory{Directory: bleve.FileSystemDirectory(c.dst), reached: make(chan struct{}), gate: c.gate, once: &sync.Once{}}
				go func() { c.done <- idx.(bleve.IndexCopyable).CopyTo(gd) }()
				select {
				case <-gd.reached:
				case err := <-c.done:
					t.Fatalf("%s: CopyTo #%d returned before writing anything: %v", desc(), i, err)
				case <-time.After(30 * time.Second):
					t.Fatalf("%s: CopyTo #%d did not reach its destination within 30s", desc(), i)
				}
				copies[i] = c
				if pl.End == p { // starts and ends at the same boundary
					close(c.gate)
					c.opened = true
					c.err = <-c.done
					c.ackEnd = j
					if c.err != nil {
						t.Fatalf("%s: backup #%d: CopyTo failed: %v", desc(), i, c.err)
					}
				}
			}
		}
		// preamble: some persisted history, then park the persister
		batch()
		settle()
		g.hold()
		batch()
		for dl := time.Now().Add(2 * time.Second); g.parkedCount() == 0 && time.Now().Before(dl); {
			time.Sleep(200 * time.Microsecond)
		}
		steps := []func(){
			func() {
				for i := 0; i < nX; i++ {
					batch()
				}
			},
			func() { g.round(2 * time.Second) },
			batch,
			settle,
			func() {
				ctx, cancel := context.WithTimeout(context.Background(), 30*time.Second)
				defer cancel()
				if err := ScorchOf(idx).ForceMerge(ctx, &mergeplan.SingleSegmentMergePlanOptions); err != nil {
					t.Fatalf("%s: ForceMerge: %v", desc(), err)
				}
			},
			settle,
			func() { batch(); settle() },
		}
		for p := 0; p < nPos; p++ {
			atBoundary(p)
			if p < len(steps) {
				steps[p]()
			}
		}
		g.release()
		for i, c := range copies {
			cidx, err := bleve.Open(c.dst)
			if err != nil {
				t.Fatalf("%s: backup #%d does not open: %v", desc(), i, err)
			}
			p, msg := checkWriterPrefix(cidx, 0)
			cidx.Close()
			if msg != "" {
				t.Fatalf("%s: backup #%d: %s", desc(), i, msg)
			}
			if p < c.ackStart || p > c.ackEnd {
				t.Fatalf("%s: backup #%d holds batch %d, %d were acknowledged when it took its reader and %d when it copied", desc(), i, p, c.ackStart, c.ackEnd)
			}
		}
		if p, msg := checkWriterPrefix(idx, 0); msg != "" || p != j {
			t.Fatalf("%s: source index after all batches and backups is at batch %d of %d: %s", desc(), p, j, msg)
		}
		long, overlap := false, false
		for i, pl := range plans {
			if pl.End-pl.Start >= 3 {
				long = true
			}
			for k, o := range plans {
				if k != i && o.Start < pl.Start && o.End > pl.Start && o.End < pl.End {
					overlap = true
				}
			}
		}
		cl := []string{"lifecycle", "lifecycle-gate:" + gatePoint}
		if overlap {
			cl = append(cl, "lifecycle-an-earlier-backup-ended-while-a-later-one-was-open")
		}
		ev.Case(long, map[string]interface{}{"cfg": cfg, "gate": gatePoint, "nx": nX, "plans": plans}, map[string]interface{}{"cfg": cfg, "persister_parked_at": gatePoint, "backups_start_end_boundaries": plans}, cl...)
	})
}
