package harness

// Greedy structural minimisation of a failing query (in addition to rapid's own
// shrinking, which rarely simplifies recursive query trees): replace a node by one
// of its descendants, drop list elements, lower minimums, while the predicate
// keeps failing.

func (q *Q) clone() *Q {
	if q == nil {
		return nil
	}
	c := *q
	cp := func(l []*Q) []*Q {
		if l == nil {
			return nil
		}
		r := make([]*Q, len(l))
		for i, x := range l {
			r[i] = x.clone()
		}
		return r
	}
	c.Children, c.Must, c.Should, c.MustNot = cp(q.Children), cp(q.Must), cp(q.Should), cp(q.MustNot)
	c.Filter = q.Filter.clone()
	return (&c).fix()
}

// variants returns simpler candidates derived from q (one step).
func (q *Q) variants() []*Q {
	var out []*Q
	lists := []*[]*Q{&q.Children, &q.Must, &q.Should, &q.MustNot}
	// 1. replace by a direct sub-query
	for _, l := range lists {
		for _, c := range *l {
			out = append(out, c.clone())
		}
	}
	if q.Filter != nil {
		out = append(out, q.Filter.clone())
	}
	// 2. drop one element of a list / the filter / lower min
	for li := range lists {
		n := len(*lists[li])
		for i := 0; i < n; i++ {
			c := q.clone()
			cl := []*[]*Q{&c.Children, &c.Must, &c.Should, &c.MustNot}[li]
			*cl = append(append([]*Q{}, (*cl)[:i]...), (*cl)[i+1:]...)
			if len(c.Children)+len(c.Must)+len(c.Should)+len(c.MustNot) == 0 && c.Filter == nil {
				continue
			}
			if c.Kind == "boolean" && len(c.Should) == 0 {
				c.Min = 0
			}
			out = append(out, c.fix())
		}
	}
	if q.Filter != nil {
		c := q.clone()
		c.Filter = nil
		if len(c.Must)+len(c.Should)+len(c.MustNot) > 0 {
			out = append(out, c.fix())
		}
	}
	if q.Min > 0 {
		c := q.clone()
		c.Min--
		out = append(out, c.fix())
	}
	// 3. simplify one sub-query in place
	for li := range lists {
		for i, sub := range *lists[li] {
			for _, v := range sub.variants() {
				c := q.clone()
				cl := []*[]*Q{&c.Children, &c.Must, &c.Should, &c.MustNot}[li]
				(*cl)[i] = v
				out = append(out, c.fix())
			}
		}
	}
	if q.Filter != nil {
		for _, v := range q.Filter.variants() {
			c := q.clone()
			c.Filter = v
			out = append(out, c.fix())
		}
	}
	return out
}

func (q *Q) size() int {
	n := 0
	q.Walk(func(*Q) { n++ })
	return n
}

// MinimizeQ greedily shrinks q while fails(q) stays true (bounded effort).
func MinimizeQ(q *Q, fails func(*Q) bool) *Q {
	budget := 400
	for budget > 0 {
		improved := false
		for _, v := range q.variants() {
			budget--
			if budget <= 0 {
				break
			}
			if v.size() > q.size() {
				continue
			}
			if v.size() == q.size() && v.Min >= q.Min && v.String() >= q.String() {
				continue
			}
			ok := func() (r bool) {
				defer func() {
					if recover() != nil {
						r = false
					}
				}()
				return fails(v)
			}()
			if ok {
				q = v
				improved = true
				break
			}
		}
		if !improved {
			break
		}
	}
	return q
}
