package harness

import (
	"context"
	"fmt"
	"sort"
	"strings"
	"testing"
	"time"

	"github.com/blevesearch/bleve/v2"
	"github.com/blevesearch/bleve/v2/index/scorch/mergeplan"
	"pgregory.net/rapid"
)

// C05 - merging never changes what a search returns - rests on the merge planner handing every
// segment to at most one merge task ("A segment will be assigned to at most a single MergeTask
// in the output MergePlan", mergeplan.Plan): a segment merged twice doubles its documents.

type c05Seg struct {
	id         uint64
	full, live int64
}

func (s *c05Seg) Id() uint64          { return s.id }
func (s *c05Seg) FullSize() int64     { return s.full }
func (s *c05Seg) LiveSize() int64     { return s.live }
func (s *c05Seg) HasVector() bool     { return false }
func (s *c05Seg) FileSize() int64     { return s.full * 100 }
func (s *c05Seg) LiveFileSize() int64 { return s.live * 100 }

func genC05PlanOptions(t *rapid.T, maxSeg int64) mergeplan.MergePlanOptions {
	return mergeplan.MergePlanOptions{
		MaxSegmentsPerTier:   rapid.IntRange(1, 4).Draw(t, "perTier"),
		MaxSegmentSize:       int64(rapid.IntRange(2, int(3*maxSeg)+2).Draw(t, "maxSegSize")),
		MaxSegmentFileSize:   1 << 40,
		TierGrowth:           float64(rapid.IntRange(1, 5).Draw(t, "tierGrowth")),
		SegmentsPerMergeTask: rapid.IntRange(2, 8).Draw(t, "perTask"),
		FloorSegmentSize:     int64(rapid.IntRange(1, 8).Draw(t, "floor")),
		FloorSegmentFileSize: 1 << 40,
		ReclaimDeletesWeight: float64(rapid.IntRange(0, 3).Draw(t, "reclaim")),
	}
}

func TestC05MergePlan(t *testing.T) {
	ev := Ev("C05")
	checkPropN(t, "C05", 50000, func(t *rapid.T) {
		n := rapid.IntRange(2, 10).Draw(t, "nsegs")
		var segs []mergeplan.Segment
		var maxSeg int64 = 1
		sizes := make([]string, 0, n)
		for i := 0; i < n; i++ {
			full := int64(rapid.IntRange(1, 12).Draw(t, "full"))
			live := full
			if rapid.IntRange(0, 2).Draw(t, "hasDeletes") == 0 {
				live = int64(rapid.IntRange(1, int(full)).Draw(t, "live"))
			}
			if full > maxSeg {
				maxSeg = full
			}
			segs = append(segs, &c05Seg{id: uint64(i + 1), full: full, live: live})
			sizes = append(sizes, fmt.Sprintf("%d/%d", live, full))
		}
		o := genC05PlanOptions(t, maxSeg)
		plan, err := mergeplan.Plan(segs, &o)
		if err != nil {
			t.Fatalf("Plan(%v, %+v): %v", sizes, o, err)
		}
		desc := func() string {
			var tasks []string
			for _, task := range plan.Tasks {
				var ids []string
				for _, s := range task.Segments {
					ids = append(ids, fmt.Sprint(s.Id()))
				}
				tasks = append(tasks, "["+strings.Join(ids, " ")+"]")
			}
			return fmt.Sprintf("segments live/full (ids 1..%d) %v, options %+v, tasks %v", n, sizes, o, tasks)
		}
		ntasks := 0
		if plan != nil {
			seen := map[uint64]int{}
			for ti, task := range plan.Tasks {
				if len(task.Segments) == 0 {
					t.Fatalf("merge task %d is empty: %s", ti, desc())
				}
				for _, s := range task.Segments {
					if s.Id() < 1 || s.Id() > uint64(n) {
						t.Fatalf("merge task %d names segment %d, which was not offered: %s", ti, s.Id(), desc())
					}
					if prev, dup := seen[s.Id()]; dup {
						t.Fatalf("segment %d is assigned to merge tasks %d and %d: %s", s.Id(), prev, ti, desc())
					}
					seen[s.Id()] = ti
				}
			}
			ntasks = len(plan.Tasks)
		}
		ev.Case(ntasks >= 2, map[string]interface{}{"sizes": sizes, "o": fmt.Sprintf("%+v", o)}, map[string]interface{}{"segments_live_full": sizes, "options": fmt.Sprintf("%+v", o), "tasks": ntasks}, "merge-plan", fmt.Sprintf("merge-plan-tasks:%d", min(ntasks, 3)))
	})
}

// TestC05ForcedMergeOptions: end to end - 3-8 persisted segments of 1-8 documents each
// (some later thinned by deletes), a forced merge under generated planner options, and the same
// searches before and after.
func TestC05ForcedMergeOptions(t *testing.T) {
	ev := Ev("C05")
	checkPropN(t, "C05", 40, func(t *rapid.T) {
		cfg := Config{Engine: EngScorchDisk, MaxSegPerTier: 100, FloorSegSize: 1, SegPerMerge: 10}
		idx, err := cfg.Create(TempDir(t), WorldMapping())
		if err != nil {
			t.Fatalf("create: %v", err)
		}
		defer idx.Close()
		nseg := rapid.IntRange(3, 8).Draw(t, "nsegs")
		var ids []string
		var maxSeg int64 = 1
		for s := 0; s < nseg; s++ {
			b := idx.NewBatch()
			k := rapid.IntRange(1, 8).Draw(t, "segdocs")
			if int64(k) > maxSeg {
				maxSeg = int64(k)
			}
			for i := 0; i < k; i++ {
				id := fmt.Sprintf("s%dd%d", s, i)
				_ = b.Index(id, Doc{"t": {S: []string{genWords(t, "w", 1, 3)}}, "k": {S: []string{fmt.Sprintf("seg%d", s)}}}.ToBleve())
				ids = append(ids, id)
			}
			if s > 0 && rapid.IntRange(0, 2).Draw(t, "thin") == 0 {
				victim := rapid.SampledFrom(ids).Draw(t, "victim")
				b.Delete(victim)
				for i, x := range ids {
					if x == victim {
						ids = append(ids[:i], ids[i+1:]...)
						break
					}
				}
			}
			if err := idx.Batch(b); err != nil {
				t.Fatalf("batch: %v", err)
			}
			if err := WaitPersisted(idx, 30*time.Second); err != nil {
				t.Fatalf("harness: %v", err)
			}
		}
		sort.Strings(ids)
		snapshot := func() string {
			var sb strings.Builder
			dc, _ := idx.DocCount()
			fmt.Fprintf(&sb, "count=%d;", dc)
			for _, q := range []struct{ f, w string }{{"", ""}, {"t", "a"}, {"t", "ab"}, {"k", "seg0"}, {"k", "seg1"}} {
				var req *bleve.SearchRequest
				if q.f == "" {
					req = bleve.NewSearchRequestOptions(bleve.NewMatchAllQuery(), 200, 0, false)
				} else {
					tq := bleve.NewTermQuery(q.w)
					tq.SetField(q.f)
					req = bleve.NewSearchRequestOptions(tq, 200, 0, false)
				}
				req.SortBy([]string{"_id"})
				res, err := SearchWatchdog(idx, req)
				if err != nil {
					t.Fatalf("search: %v", err)
				}
				fmt.Fprintf(&sb, "%s:%s total=%d %v;", q.f, q.w, res.Total, hitIDs(res))
			}
			return sb.String()
		}
		before := snapshot()
		if !strings.Contains(before, fmt.Sprintf(": total=%d %v;", len(ids), ids)) {
			t.Fatalf("before the merge match-all is not the %d live documents %v: %s", len(ids), ids, before)
		}
		segsBefore, _ := SegmentShape(idx)
		o := genC05PlanOptions(t, maxSeg)
		ctx, cancel := context.WithTimeout(context.Background(), 60*time.Second)
		err = ScorchOf(idx).ForceMerge(ctx, &o)
		cancel()
		if err != nil {
			t.Fatalf("ForceMerge(%+v): %v", o, err)
		}
		after := snapshot()
		if before != after {
			t.Fatalf("a forced merge with options %+v changed the answers (%d segments before):\n before %s\n after  %s", o, segsBefore, before, after)
		}
		if err := WaitPersisted(idx, 30*time.Second); err != nil {
			t.Fatalf("harness: %v", err)
		}
		segsAfter, _ := SegmentShape(idx)
		ev.Case(segsAfter < segsBefore, map[string]interface{}{"o": fmt.Sprintf("%+v", o), "ids": ids, "nseg": nseg}, map[string]interface{}{"options": fmt.Sprintf("%+v", o), "segments_before": segsBefore, "segments_after": segsAfter, "documents": len(ids)}, "forced-merge-with-generated-planner-options")
	})
}
