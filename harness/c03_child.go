//go:build verif

package harness

// Child-process side of the crash checks (C03, C12): the test binary is re-executed
// with VERIF_CHILD=c03 and a JSON spec; it runs a workload against a disk index with
// the hook dispatcher installed and reports progress on stdout, unbuffered.

import (
	"encoding/json"
	"fmt"
	"os"
	"strconv"
	"time"

	"github.com/blevesearch/bleve/v2"
)

type c03Spec struct {
	Mode    string   `json:"mode"` // run | count | dump
	Dir     string   `json:"dir"`
	Cfg     Config   `json:"cfg"`
	Batches [][]Op   `json:"batches"`
	Hook    HookPlan `json:"hook"`
	Extra   [][]Op   `json:"extra,omitempty"` // dump mode: further batches applied after the first dump
	FirstID int      `json:"first_id"`        // sequence number of Batches[0] (1 for a fresh index)
	Settle  bool     `json:"settle,omitempty"`
}

type c03Dump struct {
	Seq int       `json:"seq"`
	Obs *Observed `json:"obs"`
	Err string    `json:"err,omitempty"`
}

func init() { childModes["c03"] = c03ChildMain }

func c03ApplyBatch(idx bleve.Index, seq int, ops []Op, announce bool) error {
	b := idx.NewBatch()
	for _, o := range ops {
		switch o.Kind {
		case OpIndex:
			if err := b.Index(o.ID, o.Doc.ToBleve()); err != nil {
				return err
			}
		case OpDelete:
			b.Delete(o.ID)
		}
	}
	b.SetInternal([]byte("seq"), []byte(strconv.Itoa(seq)))
	if announce {
		s := seq
		b.SetPersistedCallback(func(err error) {
			if err == nil {
				fmt.Fprintf(os.Stdout, "PERSISTED %d\n", s)
			}
		})
		fmt.Fprintf(os.Stdout, "SUBMIT %d\n", seq)
	}
	if err := idx.Batch(b); err != nil {
		return err
	}
	if announce {
		fmt.Fprintf(os.Stdout, "ACK %d\n", seq)
	}
	return nil
}

func c03ChildMain() int {
	raw, err := os.ReadFile(os.Getenv("VERIF_CHILD_SPEC"))
	if err != nil {
		fmt.Fprintln(os.Stderr, "harness: child: spec:", err)
		return 3
	}
	var spec c03Spec
	if err := json.Unmarshal(raw, &spec); err != nil {
		fmt.Fprintln(os.Stderr, "harness: child: spec:", err)
		return 3
	}
	for i := range spec.Batches {
		for j := range spec.Batches[i] {
			fixDocAfterJSON(spec.Batches[i][j].Doc)
		}
	}
	for i := range spec.Extra {
		for j := range spec.Extra[i] {
			fixDocAfterJSON(spec.Extra[i][j].Doc)
		}
	}
	switch spec.Mode {
	case "run", "count", "create":
		if spec.Mode == "create" {
			InstallHook(spec.Hook) // reproducer of the creation finding: hook active during creation
		}
		idx, err := spec.Cfg.Create(spec.Dir, WorldMapping())
		if err != nil {
			fmt.Fprintln(os.Stderr, "harness: child: create:", err)
			return 3
		}
		if spec.Mode == "create" {
			fmt.Fprintln(os.Stdout, "CREATE-RETURNED")
			time.Sleep(10 * time.Second) // the parent kills us here
			return 0
		}
		// Creation is complete only once the mapping is on disk: with unsafe_batch NewUsing
		// returns before that (known finding C03/unsafe-create-not-durable), so wait; crash
		// plans start after this line.
		if err := WaitPersisted(idx, 20*time.Second); err != nil {
			fmt.Fprintln(os.Stderr, "harness: child: create:", err)
			return 3
		}
		InstallHook(spec.Hook)
		fmt.Fprintln(os.Stdout, "CREATED")
		for i, ops := range spec.Batches {
			if err := c03ApplyBatch(idx, spec.FirstID+i, ops, true); err != nil {
				fmt.Fprintf(os.Stdout, "ERROR batch %d: %v\n", spec.FirstID+i, err)
				return 4
			}
			HookSignalWrite()
		}
		if spec.Mode == "count" || spec.Settle {
			// let persister, merger and purger run so that their points show up in the table
			_ = WaitPersisted(idx, 20*time.Second)
			_ = WaitQuiet(idx, 500*time.Millisecond)
		}
		if err := idx.Close(); err != nil {
			fmt.Fprintf(os.Stdout, "ERROR close: %v\n", err)
			return 4
		}
		fmt.Fprintln(os.Stdout, "CLOSED")
		if spec.Mode == "count" {
			c := HookCounts()
			for _, p := range sortedPoints(c) {
				fmt.Fprintf(os.Stdout, "COUNT %s %d\n", p, c[p])
			}
		}
		return 0
	case "dump":
		dump := func(idx bleve.Index, tag string) bool {
			d := c03Dump{}
			obs, err := Observe(idx, DocIDs, []string{"seq"})
			if err != nil {
				d.Err = err.Error()
			} else {
				d.Obs = obs
				if s, ok := obs.Internal["seq"]; ok {
					d.Seq, _ = strconv.Atoi(s)
				}
			}
			b, _ := json.Marshal(d)
			fmt.Fprintf(os.Stdout, "%s %s\n", tag, b)
			return err == nil
		}
		idx, err := spec.Cfg.Reopen(spec.Dir)
		if err != nil {
			fmt.Fprintf(os.Stdout, "OPENERROR %v\n", err)
			return 5
		}
		if !dump(idx, "DUMP1") {
			idx.Close()
			return 5
		}
		for i, ops := range spec.Extra {
			if err := c03ApplyBatch(idx, spec.FirstID+i, ops, false); err != nil {
				fmt.Fprintf(os.Stdout, "ERROR extra batch %d: %v\n", spec.FirstID+i, err)
				idx.Close()
				return 5
			}
		}
		if spec.Cfg.UnsafeBatch {
			_ = WaitPersisted(idx, 20*time.Second)
		}
		if err := idx.Close(); err != nil {
			fmt.Fprintf(os.Stdout, "ERROR close after extra batches: %v\n", err)
			return 5
		}
		idx, err = spec.Cfg.Reopen(spec.Dir)
		if err != nil {
			fmt.Fprintf(os.Stdout, "OPENERROR second open: %v\n", err)
			return 5
		}
		ok := dump(idx, "DUMP2")
		idx.Close()
		if !ok {
			return 5
		}
		return 0
	}
	fmt.Fprintln(os.Stderr, "harness: child: bad mode", spec.Mode)
	return 3
}

// fixDocAfterJSON restores the numeric values that travel as strings (json has no Inf).
func fixDocAfterJSON(d Doc) {
	for _, f := range d {
		if f != nil && len(f.NS) > 0 && len(f.N) == 0 {
			for _, s := range f.NS {
				v, _ := strconv.ParseFloat(s, 64)
				f.N = append(f.N, v)
			}
		}
	}
}
