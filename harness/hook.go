//go:build verif

package harness

// Dispatcher installed into scorch.VerifHook: count / crash / delay personalities.

import (
	"hash/fnv"
	"runtime"
	"sort"
	"sync"
	"syscall"
	"time"

	"github.com/blevesearch/bleve/v2/index/scorch"
)

type HookPlan struct {
	Mode       string `json:"mode"` // "", count, crash, delay
	CrashPoint string `json:"crash_point,omitempty"`
	CrashK     int    `json:"crash_k,omitempty"`
	DelaySeed  uint64 `json:"delay_seed,omitempty"`
	// DelayPoints: only these points are perturbed (nil = the default lock-free set)
	DelayPoints []string `json:"delay_points,omitempty"`
	DelayMaxUS  int      `json:"delay_max_us,omitempty"`
	// WaitPoints: a background goroutine reaching one of these points waits there until the
	// writer completes its next call (HookSignalWrite), at most WaitCapUS microseconds; works
	// together with every mode (in crash mode the kill still happens at its point)
	WaitPoints []string `json:"wait_points,omitempty"`
	WaitCapUS  int      `json:"wait_cap_us,omitempty"`
}

var hookWriteSignal = make(chan struct{}, 1)

// HookSignalWrite tells the dispatcher that the writer completed a call.
func HookSignalWrite() {
	select {
	case hookWriteSignal <- struct{}{}:
	default:
	}
}

// Points at which the calling goroutine holds no scorch lock: only these are delayed.
var lockFreePoints = map[string]bool{
	"batch.beforeIntroduce": true, "batch.afterApplied": true, "batch.afterPersisted": true,
	"intro.segment.beforeSwap": true, "intro.persist.beforeSwap": true, "intro.merge.beforeSwap": true,
	"intro.segment.afterSwap": true, "intro.persist.afterSwap": true, "intro.merge.afterSwap": true,
	"persist.begin": true, "persist.afterSegmentFiles": true, "persist.beforeIntroduce": true, "persist.afterIntroduce": true,
	"persist.afterBoltCommit": true, "persist.afterBoltSync": true, "persist.beforeNotifyWaiters": true, "persist.afterNotifyWaiters": true,
	"persist.memMerge.afterFiles": true, "persist.memMerge.afterIntroduce": true,
	"merge.afterFileWritten": true, "merge.beforeIntroduce": true, "merge.afterIntroduce": true,
	"purge.beforeBoltDelete": true, "purge.afterBoltCommit": true, "purge.begin": true, "purge.end": true,
}

type hookDispatcher struct {
	mu      sync.Mutex
	plan    HookPlan
	counts  map[string]int
	delays  map[string]bool
	onPoint func(point string) // in-process observers (set with SetOnPoint)
}

// SetOnPoint registers an in-process observer called at every hook point (nil clears it).
func SetOnPoint(f func(point string)) {
	hookD.mu.Lock()
	hookD.onPoint = f
	hookD.mu.Unlock()
}

var hookD = &hookDispatcher{counts: map[string]int{}}

func (h *hookDispatcher) call(point string) {
	h.mu.Lock()
	h.counts[point]++
	n := h.counts[point]
	plan := h.plan
	obs := h.onPoint
	h.mu.Unlock()
	if obs != nil {
		obs(point)
	}
	for _, wp := range plan.WaitPoints {
		if wp == point {
			select { // forget a signal from before the window opened
			case <-hookWriteSignal:
			default:
			}
			capUS := plan.WaitCapUS
			if capUS <= 0 {
				capUS = 5000
			}
			select {
			case <-hookWriteSignal:
			case <-time.After(time.Duration(capUS) * time.Microsecond):
			}
			break
		}
	}
	switch plan.Mode {
	case "crash":
		if point == plan.CrashPoint && n == plan.CrashK {
			_ = syscall.Kill(syscall.Getpid(), syscall.SIGKILL)
			time.Sleep(time.Hour) // never reached
		}
	case "stall":
		if point == plan.CrashPoint && n == plan.CrashK {
			time.Sleep(5 * time.Second)
		}
	case "delay":
		if h.delays != nil && !h.delays[point] {
			return
		}
		if h.delays == nil && !lockFreePoints[point] {
			return
		}
		hh := fnv.New64a()
		var b [8]byte
		for i := range b {
			b[i] = byte(plan.DelaySeed >> (8 * i))
		}
		hh.Write(b[:])
		hh.Write([]byte(point))
		hh.Write([]byte{byte(n), byte(n >> 8)})
		x := hh.Sum64()
		switch x % 4 {
		case 0:
			runtime.Gosched()
		case 1:
			max := plan.DelayMaxUS
			if max <= 0 {
				max = 2000
			}
			time.Sleep(time.Duration((x>>8)%uint64(max)) * time.Microsecond)
		}
	}
}

// InstallHook activates the dispatcher with the given plan and resets the counters.
func InstallHook(p HookPlan) {
	hookD.mu.Lock()
	hookD.plan = p
	hookD.counts = map[string]int{}
	hookD.delays = nil
	if p.DelayPoints != nil {
		hookD.delays = map[string]bool{}
		for _, x := range p.DelayPoints {
			hookD.delays[x] = true
		}
	}
	hookD.mu.Unlock()
	f := func(point string) { hookD.call(point) }
	scorch.VerifHook.Store(&f)
}

func ClearHook() { scorch.VerifHook.Store(nil) }

// HookCounts returns a copy of the occurrence table.
func HookCounts() map[string]int {
	hookD.mu.Lock()
	defer hookD.mu.Unlock()
	m := map[string]int{}
	for k, v := range hookD.counts {
		m[k] = v
	}
	return m
}

func sortedPoints(m map[string]int) []string {
	ks := make([]string, 0, len(m))
	for k := range m {
		ks = append(ks, k)
	}
	sort.Strings(ks)
	return ks
}

// Rendezvous couples background work to the writer: a background goroutine reaching one of the
// chosen hook points waits there until the writer has completed one more call (Signal), or for
// at most Cap.  It makes "a batch is introduced inside this window" the common case.
type Rendezvous struct {
	Points map[string]bool
	Cap    time.Duration
	ch     chan struct{}
	mu     sync.Mutex
	Waits  int
	Met    int
}

// Points that open a window between a background task's view of the root and the moment its
// result is introduced or recorded.
var RendezvousPoints = []string{"persist.begin", "persist.afterSegmentFiles", "persist.memMerge.afterFiles", "persist.beforeIntroduce",
	"persist.afterIntroduce", "persist.afterBoltCommit", "merge.afterFileWritten", "merge.beforeIntroduce"}

func NewRendezvous(points []string, cap time.Duration) *Rendezvous {
	r := &Rendezvous{Points: map[string]bool{}, Cap: cap, ch: make(chan struct{}, 1)}
	for _, p := range points {
		r.Points[p] = true
	}
	return r
}

func (r *Rendezvous) OnPoint(p string) {
	if !r.Points[p] {
		return
	}
	select { // forget a signal sent before the window opened
	case <-r.ch:
	default:
	}
	met := false
	select {
	case <-r.ch:
		met = true
	case <-time.After(r.Cap):
	}
	r.mu.Lock()
	r.Waits++
	if met {
		r.Met++
	}
	r.mu.Unlock()
}

// Signal is called by the writer after each completed call.
func (r *Rendezvous) Signal() {
	select {
	case r.ch <- struct{}{}:
	default:
	}
}

func (r *Rendezvous) Stats() (waits, met int) {
	r.mu.Lock()
	defer r.mu.Unlock()
	return r.Waits, r.Met
}
