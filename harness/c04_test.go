//go:build verif

package harness

import (
	"context"
	"fmt"
	"runtime"
	"sort"
	"strconv"
	"strings"
	"sync"
	"testing"
	"time"

	"github.com/blevesearch/bleve/v2"
	"github.com/blevesearch/bleve/v2/index/scorch/mergeplan"
	"github.com/blevesearch/bleve/v2/numeric"
	index "github.com/blevesearch/bleve_index_api"
	"pgregory.net/rapid"
)

// C04 — readers see whole batches, in order, and a reader's view never changes.

// readerDocValuesProblem: for every document a reader enumerates, the doc values of the numeric
// field n that the SAME reader serves (what its sorts and facets are computed from) must be the
// stored value of n in that reader's view of the document.
func readerDocValuesProblem(r index.IndexReader) string {
	dvr, err := r.DocValueReader([]string{"n"})
	if err != nil {
		return "DocValueReader: " + err.Error()
	}
	dr, err := r.DocIDReaderAll()
	if err != nil {
		return "DocIDReaderAll: " + err.Error()
	}
	defer dr.Close()
	for {
		id, err := dr.Next()
		if err != nil {
			return "DocIDReader.Next: " + err.Error()
		}
		if id == nil {
			return ""
		}
		ext, err := r.ExternalID(id)
		if err != nil {
			return "ExternalID: " + err.Error()
		}
		var got []string
		if err := dvr.VisitDocValues(id, func(field string, term []byte) {
			if field != "n" {
				return
			}
			if ok, shift := numeric.ValidPrefixCodedTermBytes(term); ok && shift == 0 {
				i64, _ := numeric.PrefixCoded(term).Int64()
				got = append(got, strconv.FormatFloat(numeric.Int64ToFloat64(i64), 'g', -1, 64))
			}
		}); err != nil {
			return "VisitDocValues: " + err.Error()
		}
		d, err := r.Document(ext)
		if err != nil || d == nil {
			return fmt.Sprintf("Document(%s) of an enumerated document: %v %v", ext, d, err)
		}
		var want []string
		for _, f := range StoredFieldsOf(d) {
			if strings.HasPrefix(f, "n|") {
				want = append(want, f[strings.LastIndex(f, "|")+1:])
			}
		}
		sort.Strings(got)
		sort.Strings(want)
		if strings.Join(got, ",") != strings.Join(want, ",") {
			return fmt.Sprintf("document %s: the reader's doc values of n are %v, its stored n is %v", ext, got, want)
		}
	}
}

// observeBatches runs one search over all writer-owned documents and returns, per writer,
// the batch number its four documents carry (0 = none present).  A mixture is a torn batch.
func observeBatches(idx bleve.Index, nw int) ([]int, string) {
	var ids []string
	for w := 0; w < nw; w++ {
		ids = append(ids, ownedIDs(w)...)
	}
	req := bleve.NewSearchRequestOptions(bleve.NewDocIDQuery(ids), len(ids)+5, 0, false)
	req.Fields = []string{"n"}
	res, err := idx.Search(req)
	if err != nil {
		return nil, "search: " + err.Error()
	}
	if int(res.Total) != len(res.Hits) {
		return nil, fmt.Sprintf("Total=%d but %d hits in the same result", res.Total, len(res.Hits))
	}
	vals := map[string]int{}
	for _, h := range res.Hits {
		if _, dup := vals[h.ID]; dup {
			return nil, "document " + h.ID + " returned twice"
		}
		f, _ := h.Fields["n"].(float64)
		vals[h.ID] = int(f)
	}
	out := make([]int, nw)
	for w := 0; w < nw; w++ {
		seen := map[int]int{}
		for _, id := range ownedIDs(w) {
			v, ok := vals[id]
			if !ok {
				v = 0
			}
			seen[v]++
		}
		if len(seen) != 1 {
			return nil, fmt.Sprintf("one search result shows writer %d's documents at different batches %v (part of a batch visible)", w, seen)
		}
		for v := range seen {
			out[w] = v
		}
	}
	return out, ""
}

// readerDigest renders everything a low-level reader shows.
func readerDigest(r index.IndexReader, ids []string, ikeys []string) (string, string) {
	var sb strings.Builder
	dc, err := r.DocCount()
	if err != nil {
		return "", "DocCount: " + err.Error()
	}
	fmt.Fprintf(&sb, "count=%d;", dc)
	dr, err := r.DocIDReaderAll()
	if err != nil {
		return "", "DocIDReaderAll: " + err.Error()
	}
	var all []string
	for {
		id, err := dr.Next()
		if err != nil {
			dr.Close()
			return "", "DocIDReader.Next: " + err.Error()
		}
		if id == nil {
			break
		}
		ext, err := r.ExternalID(id)
		if err != nil {
			dr.Close()
			return "", "ExternalID: " + err.Error()
		}
		all = append(all, ext)
	}
	dr.Close()
	sort.Strings(all)
	fmt.Fprintf(&sb, "ids=%v;", all)
	if int(dc) != len(all) {
		return "", fmt.Sprintf("the reader's DocCount is %d but it enumerates %d documents %v", dc, len(all), all)
	}
	// the term dictionary of the text field with its per-term counts (what idf and the
	// dictionary-driven searchers are computed from)
	if fd, err := r.FieldDict("t"); err == nil {
		var entries []string
		for {
			e, err := fd.Next()
			if err != nil {
				fd.Close()
				return "", "FieldDict.Next: " + err.Error()
			}
			if e == nil {
				break
			}
			entries = append(entries, fmt.Sprintf("%s:%d", e.Term, e.Count))
		}
		fd.Close()
		fmt.Fprintf(&sb, "dict(t)=%v;", entries)
	} else {
		return "", "FieldDict: " + err.Error()
	}
	for _, id := range ids {
		d, err := r.Document(id)
		if err != nil {
			return "", "Document: " + err.Error()
		}
		if d != nil {
			fmt.Fprintf(&sb, "%s=%v;", id, StoredFieldsOf(d))
		}
	}
	for _, k := range ikeys {
		v, err := r.GetInternal([]byte(k))
		if err != nil {
			return "", "GetInternal: " + err.Error()
		}
		fmt.Fprintf(&sb, "%s=%q;", k, v)
	}
	for _, term := range []string{"a", "ab", "x"} {
		tfr, err := r.TermFieldReader(context.Background(), []byte(term), "t", true, true, true)
		if err != nil {
			return "", "TermFieldReader: " + err.Error()
		}
		var hits []string
		for {
			tfd, err := tfr.Next(nil)
			if err != nil {
				tfr.Close()
				return "", "TermFieldReader.Next: " + err.Error()
			}
			if tfd == nil {
				break
			}
			ext, _ := r.ExternalID(tfd.ID)
			hits = append(hits, fmt.Sprintf("%s*%d", ext, tfd.Freq))
		}
		tfr.Close()
		sort.Strings(hits)
		fmt.Fprintf(&sb, "t:%s=%v;", term, hits)
	}
	return sb.String(), ""
}

func TestC04Readers(t *testing.T) {
	ev := Ev("C04")
	ev.SetRule("rapid: 1-3 concurrent writers (each batch rewrites the writer's four documents with n=j and its internal key, plus churn on shared ids), 1-3 search clients, 0-2 long-lived index readers, forced merges, on scorch disk (drawn persister/merge options, in-memory merges with several workers, numSnapshotsToKeep 1-3), scorch memory, upsidedown gtreap/boltdb; seeded delay plan at lock-free hook points and GOMAXPROCS in {1,2,4,16}; " +
		"oracle over the recorded observations: (1) one search result never shows part of a batch; (2) the batch seen is >= the writer's acknowledged count read before the search and <= its submitted count read after; (3) per client the batch numbers never decrease (searches and internal-key reads interleaved); (4) Total equals the hits of the same result; (5) a held reader's digest (DocCount, enumerated ids, stored documents, internals, three term postings) is identical at acquisition, after all writers/merges finished and before Close, and its DocCount equals the number of ids it enumerates; " +
		"contended-ids mode: 2-4 writers issue 2-10 Batch/Index/Delete calls each on the same 1-3 ids at the same time (all engines, documents up to a few KB so that analysis takes time); at quiescence every id must hold the version of some writer's last call on it, be listed and counted once, and be found under the terms of that version only (non-trivial there = an id written by >=2 writers); " +
		"(5b) the digest of a held reader includes the term dictionary of field t with its per-term counts; (6) every held reader, read for doc values only after all writes (the clients sort on n through newer snapshots meanwhile; one case in three uses a mapping without persisted doc values), serves doc values of n equal to the stored n of its own view of each document; " +
		"non-trivial = >=1 read overlapped an in-flight batch and >=1 reader was held across >=1 later batch")
	ev.Assume("DocCount and Search are separate calls, so count/contents agreement is only required inside one result or one reader; schedules are sampled")
	checkPropN(t, "C04", 60, func(t *rapid.T) {
		cfg := Config{Engine: rapid.SampledFrom([]string{EngScorchDisk, EngScorchDisk, EngScorchMem, EngUDGtreap, EngUDBolt}).Draw(t, "engine")}
		if cfg.Engine == EngScorchDisk {
			cfg = genC03Config(t)
		}
		cfg.BoltMmap = true
		nw := rapid.IntRange(1, 3).Draw(t, "nwriters")
		var writers []*seqWriter
		for w := 0; w < nw; w++ {
			sw := &seqWriter{w: w, nbatches: rapid.IntRange(5, 30).Draw(t, "nbatches")}
			for j := 0; j < sw.nbatches; j++ {
				var churn []Op
				for k, n := 0, rapid.IntRange(0, 2).Draw(t, "nchurn"); k < n; k++ {
					// shared ids are partitioned by writer: concurrent batches never touch one id
					id := fmt.Sprintf("s%d-%d", w, rapid.IntRange(0, 2).Draw(t, "churnid"))
					if rapid.Bool().Draw(t, "churndel") {
						churn = append(churn, Op{Kind: OpDelete, ID: id})
					} else {
						churn = append(churn, Op{Kind: OpIndex, ID: id, Doc: Doc{"t": {S: []string{genWords(t, "cw", 1, 2)}}}})
					}
				}
				sw.churn = append(sw.churn, churn)
			}
			writers = append(writers, sw)
		}
		nclients := rapid.IntRange(1, 3).Draw(t, "nclients")
		nreaders := rapid.IntRange(0, 2).Draw(t, "nreaders")
		readerAfter := make([]int, nreaders)
		for i := range readerAfter {
			readerAfter[i] = rapid.IntRange(0, writers[0].nbatches-1).Draw(t, "readerAfterAck")
		}
		seed := rapid.Uint64().Draw(t, "delaySeed")
		procs := rapid.SampledFrom([]int{1, 2, 4, 16}).Draw(t, "gomaxprocs")
		merges := rapid.IntRange(0, 2).Draw(t, "forcedMerges")
		oldProcs := runtime.GOMAXPROCS(procs)
		defer runtime.GOMAXPROCS(oldProcs)
		InstallHook(HookPlan{Mode: "delay", DelaySeed: seed, DelayMaxUS: 800})
		defer ClearHook()
		dir := TempDir(t)
		// one case in three keeps no doc values: sorts and facets then come from the cache scorch
		// builds per segment by un-inverting, which all snapshots of a segment share
		worldDocValues = rapid.IntRange(0, 2).Draw(t, "docvalues") != 0
		dvOff := !worldDocValues
		idx, err := cfg.Create(dir+"/idx", WorldMapping())
		worldDocValues = true
		if err != nil {
			t.Fatalf("create %s: %v", cfg, err)
		}
		var wg sync.WaitGroup
		closed := false
		stop := make(chan struct{})
		var stopOnce sync.Once
		defer func() {
			stopOnce.Do(func() { close(stop) })
			wg.Wait()
			if !closed {
				idx.Close()
			}
		}()
		errs := make(chan error, nw)
		var wwg sync.WaitGroup
		for _, sw := range writers {
			wwg.Add(1)
			wg.Add(1)
			go func(sw *seqWriter) { defer wg.Done(); defer wwg.Done(); sw.run(idx, errs) }(sw)
		}
		// search clients
		type clientReport struct {
			obs      int
			overlaps int
			msg      string
		}
		reports := make([]clientReport, nclients)
		for c := 0; c < nclients; c++ {
			wg.Add(1)
			go func(c int) {
				defer wg.Done()
				last := make([]int, nw)
				rep := &reports[c]
				for i := 0; ; i++ {
					select {
					case <-stop:
						return
					default:
					}
					ackBefore := make([]int64, nw)
					for w, sw := range writers {
						ackBefore[w] = sw.acked.Load()
					}
					if i%16 == 1 {
						// a search sorted on n through the current root (fills scorch's per-segment
						// doc-value caches when the mapping keeps no doc values)
						sreq := bleve.NewSearchRequestOptions(bleve.NewMatchAllQuery(), 5, 0, false)
						sreq.SortBy([]string{"-n", "_id"})
						if _, err := idx.Search(sreq); err != nil {
							rep.msg = "sorted search: " + err.Error()
							return
						}
					}
					var seen []int
					if i%3 == 2 {
						// internal keys: one call per writer (each its own consistent read)
						seen = make([]int, nw)
						for w := range writers {
							v, err := idx.GetInternal([]byte(fmt.Sprintf("w%d", w)))
							if err != nil {
								rep.msg = "GetInternal: " + err.Error()
								return
							}
							if v != nil {
								seen[w], _ = strconv.Atoi(string(v))
							}
							if int64(seen[w]) < ackBefore[w] {
								rep.msg = fmt.Sprintf("client %d read internal key of writer %d = %d although batch %d had been acknowledged before the read began", c, w, seen[w], ackBefore[w])
								return
							}
						}
					} else {
						var msg string
						seen, msg = observeBatches(idx, nw)
						if msg != "" {
							rep.msg = fmt.Sprintf("client %d: %s", c, msg)
							return
						}
					}
					for w, sw := range writers {
						sub := sw.submitted.Load()
						if int64(seen[w]) < ackBefore[w] {
							rep.msg = fmt.Sprintf("client %d saw writer %d at batch %d although batch %d had been acknowledged before the read began", c, w, seen[w], ackBefore[w])
							return
						}
						if int64(seen[w]) > sub {
							rep.msg = fmt.Sprintf("client %d saw writer %d at batch %d but only %d were submitted", c, w, seen[w], sub)
							return
						}
						if seen[w] < last[w] {
							rep.msg = fmt.Sprintf("client %d went backwards: writer %d at batch %d after having seen batch %d", c, w, seen[w], last[w])
							return
						}
						if sub > ackBefore[w] {
							rep.overlaps++
						}
						last[w] = seen[w]
					}
					rep.obs++
					// readers must not starve the writers when GOMAXPROCS is small
					time.Sleep(100 * time.Microsecond)
				}
			}(c)
		}
		// frozen readers
		var allIDs []string
		var ikeys []string
		for w := 0; w < nw; w++ {
			allIDs = append(allIDs, ownedIDs(w)...)
			for i := 0; i < 3; i++ {
				allIDs = append(allIDs, fmt.Sprintf("s%d-%d", w, i))
			}
			ikeys = append(ikeys, fmt.Sprintf("w%d", w))
		}
		type frozen struct {
			r       index.IndexReader
			digest  string
			atAck   int64
			problem string
		}
		frozens := make([]*frozen, nreaders)
		var fwg sync.WaitGroup
		adv, err := idx.Advanced()
		if err != nil {
			t.Fatalf("Advanced: %v", err)
		}
		for i := range frozens {
			fwg.Add(1)
			go func(i int) {
				defer fwg.Done()
				deadline := time.Now().Add(60 * time.Second)
				for writers[0].acked.Load() < int64(readerAfter[i]) && time.Now().Before(deadline) {
					time.Sleep(200 * time.Microsecond)
				}
				r, err := adv.Reader()
				if err != nil {
					frozens[i] = &frozen{problem: "Reader: " + err.Error()}
					return
				}
				f := &frozen{r: r, atAck: writers[0].acked.Load()}
				f.digest, f.problem = readerDigest(r, allIDs, ikeys)
				frozens[i] = f
			}(i)
		}
		// forced merges while writers run
		if s := ScorchOf(idx); s != nil && cfg.Engine == EngScorchDisk {
			for m := 0; m < merges; m++ {
				time.Sleep(2 * time.Millisecond)
				ctx, cancel := context.WithTimeout(context.Background(), 60*time.Second)
				_ = s.ForceMerge(ctx, &mergeplan.SingleSegmentMergePlanOptions)
				cancel()
			}
		}
		wwg.Wait()
		fwg.Wait()
		for range writers {
			if err := <-errs; err != nil {
				t.Fatalf("config %s: %v", cfg, err)
			}
		}
		// let background work catch up, then stop the clients
		_ = WaitPersisted(idx, 30*time.Second)
		if s := ScorchOf(idx); s != nil && cfg.Engine == EngScorchDisk {
			ctx, cancel := context.WithTimeout(context.Background(), 60*time.Second)
			_ = s.ForceMerge(ctx, &mergeplan.SingleSegmentMergePlanOptions)
			cancel()
			_ = WaitPersisted(idx, 30*time.Second)
		}
		time.Sleep(5 * time.Millisecond)
		stopOnce.Do(func() { close(stop) })
		wg.Wait()
		desc := fmt.Sprintf("config %s, %d writers, %d clients, GOMAXPROCS=%d, delay seed %d", cfg, nw, nclients, procs, seed)
		totalObs, overlaps := 0, 0
		for _, r := range reports {
			if r.msg != "" {
				t.Fatalf("%s: %s", desc, r.msg)
			}
			totalObs += r.obs
			overlaps += r.overlaps
		}
		heldAcross := 0
		for i, f := range frozens {
			if f.problem != "" {
				t.Fatalf("%s: reader %d taken after ack %d: %s", desc, i, f.atAck, f.problem)
			}
			again, problem := readerDigest(f.r, allIDs, ikeys)
			if problem != "" {
				t.Fatalf("%s: reader %d re-read after all writes: %s", desc, i, problem)
			}
			if again != f.digest {
				t.Fatalf("%s: the view of reader %d (taken after ack %d of writer 0) changed while it was held:\n at acquisition %s\n after writes    %s", desc, i, f.atAck, f.digest, again)
			}
			// only now does this reader read doc values: by this time newer snapshots have
			// sorted on n (the clients now and then, and the search below through the final
			// root), so any per-segment cache is already filled
			if i == 0 {
				sreq := bleve.NewSearchRequestOptions(bleve.NewMatchAllQuery(), 5, 0, false)
				sreq.SortBy([]string{"-n", "_id"})
				if _, err := idx.Search(sreq); err != nil {
					t.Fatalf("%s: sorted search: %v", desc, err)
				}
			}
			if problem := readerDocValuesProblem(f.r); problem != "" {
				t.Fatalf("%s: reader %d (taken after ack %d of writer 0), read after all writes: %s", desc, i, f.atAck, problem)
			}
			if int64(writers[0].nbatches) > f.atAck {
				heldAcross++
			}
			if err := f.r.Close(); err != nil {
				t.Fatalf("%s: reader close: %v", desc, err)
			}
		}
		// final state
		for w, sw := range writers {
			p, msg := checkWriterPrefix(idx, w)
			if msg != "" || p != sw.nbatches {
				t.Fatalf("%s: final state: writer %d at batch %d of %d: %s", desc, w, p, sw.nbatches, msg)
			}
		}
		dc, _ := idx.DocCount()
		res, err := idx.Search(bleve.NewSearchRequestOptions(bleve.NewMatchAllQuery(), 100, 0, false))
		if err != nil || dc != res.Total || int(res.Total) != len(res.Hits) {
			t.Fatalf("%s: final DocCount=%d, match-all Total=%d hits=%d err=%v", desc, dc, res.Total, len(res.Hits), err)
		}
		if err := idx.Close(); err != nil {
			t.Fatalf("close: %v", err)
		}
		closed = true
		nt := overlaps >= 1 && (heldAcross >= 1 || nreaders == 0 && totalObs >= 10)
		cl := []string{"engine:" + cfg.Engine, fmt.Sprintf("gomaxprocs:%d", procs)}
		if dvOff {
			cl = append(cl, "mapping-without-doc-values")
		}
		if heldAcross > 0 {
			cl = append(cl, "reader-held-across-writes")
		}
		canon := map[string]interface{}{"cfg": cfg, "nw": nw, "nb": writers[0].nbatches, "clients": nclients, "readers": readerAfter, "seed": seed, "procs": procs}
		smp := map[string]interface{}{"cfg": cfg, "writers": nw, "clients": nclients, "readers_taken_after_ack": readerAfter, "delay_seed": seed, "gomaxprocs": procs, "observations": totalObs, "reads_overlapping_a_batch": overlaps}
		ev.Case(nt, canon, smp, cl...)
	})
}
