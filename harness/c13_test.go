//go:build verif

package harness

import (
	"fmt"
	"os"
	"os/exec"
	"path/filepath"
	"reflect"
	"strconv"
	"testing"
	"time"

	"github.com/blevesearch/bleve/v2"
	"github.com/blevesearch/bleve/v2/index/scorch"
	"pgregory.net/rapid"
)

// C13 — rollback restores exactly the state persisted at the chosen rollback point.

func rollbackEpoch(p *scorch.RollbackPoint) uint64 {
	return reflect.ValueOf(p).Elem().FieldByName("epoch").Uint()
}

func copyDir(src, dst string) error {
	out, err := exec.Command("cp", "-r", src, dst).CombinedOutput()
	if err != nil {
		return fmt.Errorf("cp -r: %v %s", err, out)
	}
	return nil
}

func seqOf(idx bleve.Index) (int, error) {
	v, err := idx.GetInternal([]byte("seq"))
	if err != nil {
		return 0, err
	}
	if v == nil {
		return 0, nil
	}
	return strconv.Atoi(string(v))
}

func TestC13Rollback(t *testing.T) {
	ev := Ev("C13")
	ev.SetRule("rapid: scorch disk index with numSnapshotsToKeep in {1,2,3,5}, safe/unsafe batches, drawn persister/merge options, a schedule mode (none / seeded delay plan at the lock-free hook points / rendezvous: persister and merger wait at 1-8 drawn window points - after segment files, inside the in-memory merge, before an introduction, after the bolt commit - until the writer's next batch, 20 ms cap) so that batches land inside persists and merges; history of 4-25 batches each setting internal key seq=i and stamping n=i, (one batch in eight deletes every live document) interleaved with waits for persistence, forced merges and close/reopen; clean Close. " +
		"Oracle: RollbackPoints is non-empty, epochs strictly descending, every point's seq is a batch number, the first point's seq equals what a plain Open shows, at least min(N, persisted epochs seen) points; for EVERY offered point: copy the directory, Rollback, Open: full state == model(seq), two more batches + reopen work, and no newer epoch is listed after the rollback; " +
		"non-trivial = >=2 points offered and the target is not the newest; distinct = hash of (config, history, target)")
	checkPropN(t, "C13", 40, func(t *rapid.T) {
		cfg := genC03Config(t)
		cfg.KeepSnapshots = rapid.SampledFrom([]int{1, 2, 3, 5}).Draw(t, "keepN")
		batches := genC03Workload(t, 4, 25)
		// some batches delete every live document: the newest segments then drop out of the
		// newest snapshot while older rollback points still use them
		{
			m := NewState()
			for i := range batches {
				if i > 0 && rapid.IntRange(0, 7).Draw(t, "deleteAll") == 0 {
					var ops []Op
					for _, id := range m.LiveIDs() {
						ops = append(ops, Op{Kind: OpDelete, ID: id})
					}
					if len(ops) > 0 {
						batches[i] = ops
					}
				}
				m.Apply(batches[i])
			}
		}
		// seeded delays at the lock-free hook points (in particular inside the persister's
		// in-memory merge) so that batches are introduced while a persist or merge is under way
		delaySeed := uint64(0)
		var rv *Rendezvous
		switch mode := rapid.IntRange(0, 4).Draw(t, "schedule"); {
		case mode == 0:
			InstallHook(HookPlan{Mode: "count"})
		case mode == 1:
			delaySeed = rapid.Uint64Range(1, 1<<40).Draw(t, "delaySeed")
			InstallHook(HookPlan{Mode: "delay", DelaySeed: delaySeed, DelayMaxUS: rapid.SampledFrom([]int{500, 3000}).Draw(t, "delayMaxUS")})
		default:
			// background tasks wait inside their windows for the next batch (unsafe batches only:
			// a safe batch waits for the persister itself)
			cfg.UnsafeBatch = true
			pts := rapid.SliceOfNDistinct(rapid.SampledFrom(RendezvousPoints), 1, len(RendezvousPoints), rapid.ID[string]).Draw(t, "rendezvous")
			rv = NewRendezvous(pts, 20*time.Millisecond)
			InstallHook(HookPlan{Mode: "count"})
			SetOnPoint(rv.OnPoint)
			defer SetOnPoint(nil)
		}
		defer ClearHook()
		dir := TempDir(t)
		idxDir := filepath.Join(dir, "idx")
		idx, err := cfg.Create(idxDir, WorldMapping())
		if err != nil {
			t.Fatalf("create: %v", err)
		}
		s := ScorchOf(idx)
		seen := map[uint64]bool{}
		sample := func() {
			if eps, err := s.RootBoltSnapshotEpochs(); err == nil {
				for _, e := range eps {
					seen[e] = true
				}
			}
		}
		merges, reopens := 0, 0
		var hist []string
		for i, ops := range batches {
			if err := Guard(fmt.Sprintf("C13 batch %d", i+1), func() error { return c03ApplyBatch(idx, i+1, ops, false) }); err != nil {
				idx.Close()
				t.Fatalf("batch %d: %v", i+1, err)
			}
			if rv != nil {
				rv.Signal()
			}
			switch rapid.IntRange(0, 5).Draw(t, "after") {
			case 0, 1:
				if err := WaitPersisted(idx, 30*time.Second); err != nil {
					idx.Close()
					t.Fatalf("%v", err)
				}
				hist = append(hist, fmt.Sprintf("batch%d+wait", i+1))
				sample()
			case 2:
				if err := ForceMerge1(idx); err != nil {
					idx.Close()
					t.Fatalf("force merge: %v", err)
				}
				merges++
				hist = append(hist, fmt.Sprintf("batch%d+merge", i+1))
				sample()
			case 3:
				// close and reopen in the middle of the history (segment numbering, retained
				// snapshots and the files they share live on across the reopen)
				if err := WaitPersisted(idx, 30*time.Second); err != nil {
					idx.Close()
					t.Fatalf("%v", err)
				}
				sample()
				if err := idx.Close(); err != nil {
					t.Fatalf("close: %v", err)
				}
				idx, err = cfg.Reopen(idxDir)
				if err != nil {
					t.Fatalf("reopen after batch %d: %v", i+1, err)
				}
				s = ScorchOf(idx)
				reopens++
				hist = append(hist, fmt.Sprintf("batch%d+reopen", i+1))
			default:
				hist = append(hist, fmt.Sprintf("batch%d", i+1))
			}
		}
		if err := WaitPersisted(idx, 30*time.Second); err != nil {
			idx.Close()
			t.Fatalf("%v", err)
		}
		sample()
		if err := idx.Close(); err != nil {
			t.Fatalf("close: %v", err)
		}
		store := filepath.Join(idxDir, "store")
		pts, err := scorch.RollbackPoints(store)
		if err != nil {
			t.Fatalf("RollbackPoints: %v", err)
		}
		memMerges := HookCounts()["persist.memMerge.afterIntroduce"]
		SetOnPoint(nil)
		ClearHook()
		met := 0
		if rv != nil {
			_, met = rv.Stats()
		}
		rvDesc := ""
		if rv != nil {
			rvDesc = fmt.Sprintf(" background tasks wait for the next batch at %v", sortedKeys(rv.Points))
		}
		desc := func() string {
			return fmt.Sprintf("config %s delay seed %d%s history %v", cfg, delaySeed, rvDesc, hist)
		}
		ctxDump = desc
		if len(pts) == 0 {
			t.Fatalf("no rollback point offered (%s)", desc())
		}
		var seqs []int
		for i, p := range pts {
			if i > 0 && rollbackEpoch(p) >= rollbackEpoch(pts[i-1]) {
				t.Fatalf("rollback point epochs not strictly descending: %d then %d (%s)", rollbackEpoch(pts[i-1]), rollbackEpoch(p), desc())
			}
			sq := 0
			if v := p.GetInternal([]byte("seq")); v != nil {
				sq, err = strconv.Atoi(string(v))
				if err != nil {
					t.Fatalf("rollback point %d has a malformed seq %q", i, v)
				}
			}
			if sq < 0 || sq > len(batches) {
				t.Fatalf("rollback point %d claims seq %d, history has %d batches", i, sq, len(batches))
			}
			seqs = append(seqs, sq)
		}
		if seqs[0] != len(batches) {
			t.Fatalf("the newest rollback point is at batch %d, the index was closed after batch %d was persisted (%s)", seqs[0], len(batches), desc())
		}
		need := cfg.KeepSnapshots
		if len(seen) < need {
			need = len(seen)
		}
		if len(pts) < need {
			t.Fatalf("%d rollback points offered, numSnapshotsToKeep=%d and %d persisted epochs were observed (%s)", len(pts), cfg.KeepSnapshots, len(seen), desc())
		}
		extra := [][]Op{{{Kind: OpIndex, ID: "d0", Doc: Doc{"t": {S: []string{"x"}}}}}, {{Kind: OpDelete, ID: "d1"}}}
		for ti := range pts {
			cp := filepath.Join(dir, fmt.Sprintf("copy%d", ti))
			if err := copyDir(idxDir, cp); err != nil {
				t.Fatalf("harness: %v", err)
			}
			cstore := filepath.Join(cp, "store")
			cpts, err := scorch.RollbackPoints(cstore)
			if err != nil || len(cpts) != len(pts) {
				t.Fatalf("RollbackPoints on a copy: %v (%d points, original %d)", err, len(cpts), len(pts))
			}
			target := cpts[ti]
			if err := Guard("C13 Rollback", func() error { return scorch.Rollback(cstore, target) }); err != nil {
				t.Fatalf("Rollback to point %d (seq %d): %v (%s)", ti, seqs[ti], err, desc())
			}
			after, err := scorch.RollbackPoints(cstore)
			if err != nil {
				t.Fatalf("RollbackPoints after rollback: %v", err)
			}
			for _, p := range after {
				if rollbackEpoch(p) > rollbackEpoch(target) {
					t.Fatalf("after rollback to epoch %d a newer epoch %d is still listed (%s)", rollbackEpoch(target), rollbackEpoch(p), desc())
				}
			}
			type opened struct {
				idx bleve.Index
				err error
			}
			o1 := Guard("C13 open after rollback", func() opened { i, e := cfg.Reopen(cp); return opened{i, e} })
			ridx, err := o1.idx, o1.err
			if err != nil {
				t.Fatalf("open after rollback to point %d (seq %d): %v (%s)", ti, seqs[ti], err, desc())
			}
			type observed struct {
				o   *Observed
				err error
			}
			ob := Guard("C13 reading after rollback", func() observed { o, e := Observe(ridx, DocIDs, []string{"seq"}); return observed{o, e} })
			obs, err := ob.o, ob.err
			if err != nil {
				ridx.Close()
				t.Fatalf("reading after rollback: %v", err)
			}
			want := modelAfter(batches, seqs[ti], 1)
			if d := obs.DiffModel(want, DocIDs, []string{"seq"}); d != "" {
				ridx.Close()
				t.Fatalf("after rollback to point %d (seq %d of %d): %s (%s)", ti, seqs[ti], len(batches), d, desc())
			}
			for i, ops := range extra {
				if err := Guard("C13 write after rollback", func() error { return c03ApplyBatch(ridx, 1000+i, ops, false) }); err != nil {
					ridx.Close()
					t.Fatalf("write after rollback: %v", err)
				}
				want.Apply(ops)
				want.Internal["seq"] = strconv.Itoa(1000 + i)
			}
			if err := WaitPersisted(ridx, 30*time.Second); err != nil {
				ridx.Close()
				t.Fatalf("after rollback to seq %d and two more batches: %v (%s)", seqs[ti], err, desc())
			}
			if err := Guard("C13 close after rollback", func() error { return ridx.Close() }); err != nil {
				t.Fatalf("close after rollback: %v", err)
			}
			ridx, err = cfg.Reopen(cp)
			if err != nil {
				t.Fatalf("second open after rollback: %v", err)
			}
			obs, err = Observe(ridx, DocIDs, []string{"seq"})
			ridx.Close()
			if err != nil {
				t.Fatalf("reading after rollback + writes: %v", err)
			}
			if d := obs.DiffModel(want, DocIDs, []string{"seq"}); d != "" {
				t.Fatalf("after rollback to seq %d, two more batches and a reopen: %s (%s)", seqs[ti], d, desc())
			}
			os.RemoveAll(cp)
			nt := len(pts) >= 2 && ti > 0
			cl := []string{fmt.Sprintf("keep:%d", cfg.KeepSnapshots), fmt.Sprintf("points:%d", len(pts))}
			if merges > 0 {
				cl = append(cl, "forced-merges")
			}
			if cfg.UnsafeBatch {
				cl = append(cl, "unsafe-batch")
			}
			if delaySeed != 0 {
				cl = append(cl, "delay-plan")
			}
			if met > 0 {
				cl = append(cl, "batch-introduced-inside-a-background-window")
			}
			if memMerges > 0 {
				cl = append(cl, "in-memory-merges")
			}
			if reopens > 0 {
				cl = append(cl, "reopened-mid-history")
			}
			canon := map[string]interface{}{"cfg": cfg, "batches": batches, "hist": hist, "target": ti}
			smp := map[string]interface{}{"cfg": cfg, "history": hist, "points_seq": seqs, "target_index": ti}
			ev.Case(nt, canon, smp, cl...)
		}
	})
}
