package harness

import (
	"fmt"
	"html"
	"runtime/debug"
	"sort"
	"strings"
	"testing"
	"time"
	"unicode/utf8"

	"github.com/blevesearch/bleve/v2"
	"github.com/blevesearch/bleve/v2/analysis"
	"github.com/blevesearch/bleve/v2/document"
	"github.com/blevesearch/bleve/v2/mapping"
	"github.com/blevesearch/bleve/v2/registry"
	"github.com/blevesearch/bleve/v2/search"
	"github.com/blevesearch/bleve/v2/search/highlight"
	"pgregory.net/rapid"
)

// C19 — analysis and highlighting never panic; offsets always point into the source text.

var c19Pieces = []string{"a", "ab", "The", "of", "in", "and", "fox", "london", "QUICK", "brown-fox", "fox's", "l'avion", "x_y", "123", "4.5", "foo@bar.com", "http://a.b/c?d=e", " ", " ", "  ", "\t", "\n", ".", ",", "!", "-", "'", "\"",
	"über", "Größe", "naïve", "東京都", "日本語", "مرحبا", "العربية", "हिन्दी", "नमस्ते", "é", "à́", "‌", "می‌خواهم", "ﬁ", "İ", "ß", "Ǆ",
	"\xff", "\xc3", "\xe2\x82", "\xf0\x9f", "\xed\xa0\x80", "\x00", "<b>", "</b>", "<p class=\"x\">", "&amp;", "&#x41;", "<script>", "😀", "👍🏽", "camelCaseWord", "HTTPServer2", "ＡＢＣ", "½", "Ⅷ"}

func genC19Input(t *rapid.T, label string) []byte {
	switch rapid.IntRange(0, 49).Draw(t, label+".shape") {
	case 0:
		return []byte{}
	case 1:
		// one very long token (70 KiB)
		return []byte(strings.Repeat(rapid.SampledFrom([]string{"a", "ab", "日", "é"}).Draw(t, label+".rep"), 70*1024/2))
	case 2, 3:
		return rapid.SliceOfN(rapid.Byte(), 0, 40).Draw(t, label+".bytes")
	}
	n := rapid.IntRange(0, 12).Draw(t, label+".n")
	var sb strings.Builder
	for i := 0; i < n; i++ {
		sb.WriteString(rapid.SampledFrom(c19Pieces).Draw(t, label+".piece"))
		if rapid.IntRange(0, 2).Draw(t, label+".sp") == 0 {
			sb.WriteString(" ")
		}
	}
	return []byte(sb.String())
}

// c19HangLimit: a component that has not returned after this long is reported as not
// terminating.  It was 20 s until the snowball stemmers for Spanish and Italian, which are
// quadratic in the token length (5.8 s for the 70 KiB token of 35840 x "é" on an idle core),
// crossed it on a machine running two campaigns at once: slow is not non-terminating, so the
// limit is now far beyond what load can do to the slowest component on the largest input.
const c19HangLimit = 240 * time.Second

// guarded runs f with a watchdog and converts panics into an error string.
func guarded(what string, f func()) (msg string) {
	done := make(chan string, 1)
	go func() {
		defer func() {
			if p := recover(); p != nil {
				done <- fmt.Sprintf("%s panicked: %v\n%s", what, p, debug.Stack())
			}
		}()
		f()
		done <- ""
	}()
	select {
	case m := <-done:
		return m
	case <-time.After(c19HangLimit):
		FatalNoShrink(fmt.Sprintf("%s did not return within %v", what, c19HangLimit))
		return ""
	}
}

func checkTokenStream(input []byte, ts analysis.TokenStream, strict bool) string {
	lastStart, lastPos := 0, 0
	for i, tok := range ts {
		if tok == nil {
			return fmt.Sprintf("token %d is nil", i)
		}
		if tok.Start < 0 || tok.Start > tok.End || tok.End > len(input) {
			return fmt.Sprintf("token %d %q has offsets [%d,%d) outside 0 <= Start <= End <= %d", i, tok.Term, tok.Start, tok.End, len(input))
		}
		if strict {
			if tok.Start < lastStart {
				return fmt.Sprintf("token %d %q starts at %d before the previous token's start %d", i, tok.Term, tok.Start, lastStart)
			}
			if tok.Position < 1 || tok.Position < lastPos {
				return fmt.Sprintf("token %d %q has position %d after position %d", i, tok.Term, tok.Position, lastPos)
			}
		}
		lastStart, lastPos = tok.Start, tok.Position
	}
	return ""
}

type c19Component struct {
	kind, name string
	tokenizer  analysis.Tokenizer
	filter     analysis.TokenFilter
	charFilter analysis.CharFilter
	analyzer   analysis.Analyzer
}

// c19Components builds every registered instance plus configured instances of the
// configurable types.
func c19Components(t failT) []c19Component {
	cache := registry.NewCache()
	var out []c19Component
	def := func(err error, what string) {
		if err != nil {
			t.Fatalf("harness: defining %s: %v", what, err)
		}
	}
	_, err := cache.DefineTokenMap("c19map", map[string]interface{}{"type": "custom", "tokens": []interface{}{"a", "the", "fox", "l", "soft", "ball", "東"}})
	def(err, "token map")
	cfgTokenizers := map[string]map[string]interface{}{
		"c19-regexp-w":   {"type": "regexp", "regexp": `\w+`},
		"c19-regexp-any": {"type": "regexp", "regexp": `[^\s]+`},
		"c19-regexp-x":   {"type": "regexp", "regexp": `(a|ab)*b?`},
		"c19-exception":  {"type": "exception", "exceptions": []interface{}{`[hH][tT][tT][pP][sS]?://(\S)*`, `\w+@\w+\.\w+`}, "tokenizer": "unicode"},
	}
	for name, cfg := range cfgTokenizers {
		_, err := cache.DefineTokenizer(name, cfg)
		def(err, name)
	}
	cfgFilters := map[string]map[string]interface{}{
		"c19-length":     {"type": "length", "min": 2.0, "max": 5.0},
		"c19-ngram":      {"type": "ngram", "min": 1.0, "max": 3.0},
		"c19-ngram2":     {"type": "ngram", "min": 2.0, "max": 2.0},
		"c19-edge":       {"type": "edge_ngram", "min": 1.0, "max": 4.0, "back": false},
		"c19-edge-back":  {"type": "edge_ngram", "min": 2.0, "max": 3.0, "back": true},
		"c19-truncate":   {"type": "truncate_token", "length": 3.0},
		"c19-truncate1":  {"type": "truncate_token", "length": 1.0},
		"c19-shingle":    {"type": "shingle", "min": 2.0, "max": 3.0, "output_original": true},
		"c19-shingle2":   {"type": "shingle", "min": 2.0, "max": 2.0, "output_original": false, "separator": "_", "filler": "#"},
		"c19-stop":       {"type": "stop_tokens", "stop_token_map": "c19map"},
		"c19-compound":   {"type": "dict_compound", "dict_token_map": "c19map", "min_word_size": 3.0, "min_subword_size": 2.0, "max_subword_size": 10.0, "only_longest_match": false},
		"c19-elision":    {"type": "elision", "articles_token_map": "c19map"},
		"c19-keyword":    {"type": "keyword_marker", "keywords_token_map": "c19map"},
		"c19-normalize":  {"type": "normalize_unicode", "form": "nfkc"},
		"c19-normalized": {"type": "normalize_unicode", "form": "nfd"},
	}
	for name, cfg := range cfgFilters {
		if _, err := cache.DefineTokenFilter(name, cfg); err != nil {
			// a type that is not registered under this name in this build: skip it
			continue
		}
	}
	_, err = cache.DefineCharFilter("c19-cf-regexp", map[string]interface{}{"type": "regexp", "regexp": `a+`, "replace": "b"})
	def(err, "char filter")
	_, err = cache.DefineCharFilter("c19-cf-regexp2", map[string]interface{}{"type": "regexp", "regexp": `(\s)`, "replace": "$1$1"})
	def(err, "char filter 2")
	_, err = cache.DefineAnalyzer("c19-custom", map[string]interface{}{"type": "custom", "char_filters": []interface{}{"html", "c19-cf-regexp"}, "tokenizer": "c19-exception",
		"token_filters": []interface{}{"to_lower", "c19-ngram", "c19-stop"}})
	def(err, "custom analyzer")
	_, err = cache.DefineAnalyzer("c19-custom2", map[string]interface{}{"type": "custom", "char_filters": []interface{}{"zero_width_spaces"}, "tokenizer": "c19-regexp-x",
		"token_filters": []interface{}{"c19-shingle", "c19-edge-back"}})
	def(err, "custom analyzer 2")

	_, tks := registry.TokenizerTypesAndInstances()
	for name := range cfgTokenizers {
		tks = append(tks, name)
	}
	sort.Strings(tks)
	for _, n := range tks {
		if tk, err := cache.TokenizerNamed(n); err == nil {
			out = append(out, c19Component{kind: "tokenizer", name: n, tokenizer: tk})
		}
	}
	_, tfs := registry.TokenFilterTypesAndInstances()
	for name := range cfgFilters {
		tfs = append(tfs, name)
	}
	sort.Strings(tfs)
	for _, n := range tfs {
		if f, err := cache.TokenFilterNamed(n); err == nil {
			out = append(out, c19Component{kind: "tokenfilter", name: n, filter: f})
		}
	}
	_, cfs := registry.CharFilterTypesAndInstances()
	cfs = append(cfs, "c19-cf-regexp", "c19-cf-regexp2")
	sort.Strings(cfs)
	for _, n := range cfs {
		if f, err := cache.CharFilterNamed(n); err == nil {
			out = append(out, c19Component{kind: "charfilter", name: n, charFilter: f})
		}
	}
	_, ans := registry.AnalyzerTypesAndInstances()
	ans = append(ans, "c19-custom", "c19-custom2")
	sort.Strings(ans)
	for _, n := range ans {
		if a, err := cache.AnalyzerNamed(n); err == nil {
			out = append(out, c19Component{kind: "analyzer", name: n, analyzer: a})
		}
	}
	return out
}

var c19Cached []c19Component
var c19BaseTokenizers []analysis.Tokenizer

func c19Setup(t failT) []c19Component {
	if c19Cached == nil {
		c19Cached = c19Components(t)
		cache := registry.NewCache()
		for _, n := range []string{"unicode", "whitespace", "single", "letter"} {
			if tk, err := cache.TokenizerNamed(n); err == nil {
				c19BaseTokenizers = append(c19BaseTokenizers, tk)
			}
		}
	}
	return c19Cached
}

// c19RunComponent applies one component to one input; returns a violation message or "".
func c19RunComponent(c c19Component, input []byte, baseTk int) (msg string, tokens int) {
	what := fmt.Sprintf("%s %q on input %q", c.kind, c.name, truncateBytes(input))
	switch c.kind {
	case "tokenizer":
		var ts analysis.TokenStream
		if m := guarded(what, func() { ts = c.tokenizer.Tokenize(append([]byte(nil), input...)) }); m != "" {
			return m, 0
		}
		if m := checkTokenStream(input, ts, true); m != "" {
			return what + ": " + m, len(ts)
		}
		return "", len(ts)
	case "tokenfilter":
		tk := c19BaseTokenizers[baseTk%len(c19BaseTokenizers)]
		var ts analysis.TokenStream
		m := guarded(what, func() {
			ts = tk.Tokenize(append([]byte(nil), input...))
			ts = c.filter.Filter(ts)
		})
		return m, len(ts)
	case "charfilter":
		return guarded(what, func() { _ = c.charFilter.Filter(append([]byte(nil), input...)) }), 0
	default:
		var ts analysis.TokenStream
		m := guarded(what, func() { ts = c.analyzer.Analyze(append([]byte(nil), input...)) })
		return m, len(ts)
	}
}

func truncateBytes(b []byte) []byte {
	if len(b) > 120 {
		return append(append([]byte{}, b[:100]...), []byte(fmt.Sprintf("...(%d bytes)", len(b)))...)
	}
	return b
}

func TestC19Components(t *testing.T) {
	ev := Ev("C19")
	ev.SetRule("every registered tokenizer, token filter, char filter and analyzer instance (enumerated from the registry at run time) plus configured instances of the configurable types (regexp/exception tokenizers, ngram, edge_ngram, length, truncate, shingle, stop, dict_compound, elision, keyword_marker, normalize_unicode filters, regexp char filters, custom analyzers) applied to generated byte strings (mixed scripts, combining marks, ZWNJ, invalid UTF-8, HTML, empty, a 70 KiB token, random bytes): returns within 20 s without panic; tokenizers: 0<=Start<=End<=len(input), non-decreasing starts, positions >=1 and non-decreasing; " +
		"highlight: generated texts under length-preserving analyzers on both engines, html/ansi/custom simple highlighters with fragment sizes 1..200: no panic, and for html each fragment minus separator/marks/escaping is a contiguous piece of the stored value whose marked spans are (unions of) matched term locations; direct highlighter calls with arbitrary locations (Start<=End, End may exceed the value) never panic; " +
		"every rune: each code point of the BMP (thorough: up to U+2FFFF), alone and between two ASCII letters, through every component (the driver's shards split the range); " +
		"script-aware inputs: text built from units = a base rune from the blocks of one script family (Japanese, Korean, Arabic/Persian, Indic, Latin/Greek/Cyrillic, multi-character-folding symbols among ASCII; block edges over-weighted) optionally followed by a modifier of that family (voiced marks, harakat/tatweel/joiners, matras, combining accents, apostrophes), every input through every component; " +
		"non-trivial = input has a multi-byte or invalid sequence and the component produced >=2 tokens / the fragment holds >=2 marks")
	comps := c19Setup(t)
	perComp := scaled(60)
	checkPropN(t, "C19", 60, func(t *rapid.T) {
		// each case: one input through every component
		input := genC19Input(t, "in")
		baseTk := rapid.IntRange(0, 3).Draw(t, "baseTokenizer")
		multibyte := !utf8.Valid(input) || len(input) != utf8.RuneCount(input)
		ctxDump = func() string { return fmt.Sprintf("C19 components on input %q", truncateBytes(input)) }
		for _, c := range comps {
			msg, ntok := c19RunComponent(c, input, baseTk)
			if msg != "" {
				t.Fatalf("%s", msg)
			}
			nt := multibyte && (ntok >= 2 || c.kind == "charfilter")
			ev.Case(nt, fmt.Sprintf("%s/%s/%x", c.kind, c.name, input), nil, c.kind+":"+c.name)
		}
	})
	_ = perComp
	ev.mu.Lock()
	ev.Extra["components"] = len(comps)
	if len(ev.Samples) < 3 {
		var names []string
		for _, c := range comps {
			names = append(names, c.kind+":"+c.name)
		}
		ev.Samples = append(ev.Samples, map[string]interface{}{"components_exercised": names})
	}
	ev.mu.Unlock()
}

// FuzzC19Components: native fuzzing over (component index, input bytes).
func FuzzC19Components(f *testing.F) {
	for i, s := range []string{"", "a b", "\xff\xfe", "l'avion <b>x</b>", "東京都 日本語", "می‌خواهم", "camelCaseHTTPServer", strings.Repeat("ab", 300), "http://x.y foo@bar.com"} {
		f.Add(uint16(i*7), []byte(s))
	}
	f.Fuzz(func(t *testing.T, ci uint16, input []byte) {
		comps := c19Setup(t)
		if len(input) > 4096 {
			return
		}
		c := comps[int(ci)%len(comps)]
		if msg, _ := c19RunComponent(c, input, int(ci)); msg != "" {
			t.Fatalf("%s", msg)
		}
	})
}

// ---------------------------------------------------------------- highlighting

// custom analyzers for the highlighting check: chains in which a filter that removes tokens
// (leaving position gaps) feeds a filter that combines or splits tokens
var c19CustomHighlightAnalyzers = []string{"c19-stop-shingle", "c19-ws-stop-shingle3", "c19-length-edge", "c19-stop-ngram"}

func c19HighlightMapping(analyzer string) mapping.IndexMapping {
	m := bleve.NewIndexMapping()
	must := func(err error) {
		if err != nil {
			panic("harness: c19 highlight mapping: " + err.Error())
		}
	}
	must(m.AddCustomTokenFilter("c19-shingle2", map[string]interface{}{"type": "shingle", "min": 2.0, "max": 2.0, "output_original": true}))
	must(m.AddCustomTokenFilter("c19-shingle3", map[string]interface{}{"type": "shingle", "min": 2.0, "max": 3.0, "output_original": false}))
	must(m.AddCustomTokenFilter("c19-len2", map[string]interface{}{"type": "length", "min": 2.0, "max": 40.0}))
	must(m.AddCustomTokenFilter("c19-edge", map[string]interface{}{"type": "edge_ngram", "min": 1.0, "max": 3.0}))
	must(m.AddCustomTokenFilter("c19-ngram", map[string]interface{}{"type": "ngram", "min": 1.0, "max": 2.0}))
	must(m.AddCustomAnalyzer("c19-stop-shingle", map[string]interface{}{"type": "custom", "tokenizer": "unicode", "token_filters": []interface{}{"to_lower", "stop_en", "c19-shingle2"}}))
	must(m.AddCustomAnalyzer("c19-ws-stop-shingle3", map[string]interface{}{"type": "custom", "tokenizer": "whitespace", "token_filters": []interface{}{"stop_en", "c19-shingle3"}}))
	must(m.AddCustomAnalyzer("c19-length-edge", map[string]interface{}{"type": "custom", "tokenizer": "unicode", "token_filters": []interface{}{"c19-len2", "c19-edge"}}))
	must(m.AddCustomAnalyzer("c19-stop-ngram", map[string]interface{}{"type": "custom", "tokenizer": "unicode", "token_filters": []interface{}{"to_lower", "stop_en", "c19-ngram"}}))
	dm := bleve.NewDocumentStaticMapping()
	fm := bleve.NewTextFieldMapping()
	fm.Analyzer = analyzer
	fm.Store, fm.Index, fm.IncludeTermVectors, fm.IncludeInAll = true, true, true, false
	dm.AddFieldMappingsAt("t", fm)
	m.DefaultMapping = dm
	return m
}

var c19LengthPreserving []string

func c19Analyzers() []string {
	if c19LengthPreserving != nil {
		return c19LengthPreserving
	}
	cache := registry.NewCache()
	_, ans := registry.AnalyzerTypesAndInstances()
	sort.Strings(ans)
	for _, n := range ans {
		a, err := cache.AnalyzerNamed(n)
		if err != nil {
			continue
		}
		if da, ok := a.(*analysis.DefaultAnalyzer); ok && len(da.CharFilters) == 0 {
			c19LengthPreserving = append(c19LengthPreserving, n)
		}
	}
	return c19LengthPreserving
}

// checkHTMLFragment verifies one html-style fragment against the stored value and the
// matched locations of that field.
func checkHTMLFragment(frag string, value string, locs [][2]int) string {
	const sep = "…"
	body := strings.TrimSuffix(strings.TrimPrefix(frag, sep), sep)
	// split into plain / marked pieces
	type piece struct {
		text   string
		marked bool
	}
	var pieces []piece
	rest := body
	for {
		i := strings.Index(rest, "<mark>")
		if i < 0 {
			pieces = append(pieces, piece{html.UnescapeString(rest), false})
			break
		}
		pieces = append(pieces, piece{html.UnescapeString(rest[:i]), false})
		rest = rest[i+len("<mark>"):]
		j := strings.Index(rest, "</mark>")
		if j < 0 {
			return fmt.Sprintf("unbalanced <mark> in %q", frag)
		}
		pieces = append(pieces, piece{html.UnescapeString(rest[:j]), true})
		rest = rest[j+len("</mark>"):]
	}
	var plain strings.Builder
	for _, p := range pieces {
		plain.WriteString(p.text)
	}
	text := plain.String()
	// allowed spans: single locations and unions of overlapping/adjacent locations
	allowed := map[[2]int]bool{}
	sort.Slice(locs, func(i, j int) bool {
		return locs[i][0] < locs[j][0] || locs[i][0] == locs[j][0] && locs[i][1] < locs[j][1]
	})
	for i := range locs {
		s, e := locs[i][0], locs[i][1]
		allowed[[2]int{s, e}] = true
		for j := i + 1; j < len(locs) && locs[j][0] <= e; j++ {
			if locs[j][1] > e {
				e = locs[j][1]
			}
			allowed[[2]int{s, e}] = true
		}
	}
	// every occurrence of the de-marked fragment in the value
	found := false
	for off := 0; off+len(text) <= len(value); off++ {
		if value[off:off+len(text)] != text {
			continue
		}
		found = true
		pos := off
		ok := true
		for _, p := range pieces {
			if p.marked && !allowed[[2]int{pos, pos + len(p.text)}] {
				ok = false
				break
			}
			pos += len(p.text)
		}
		if ok {
			return ""
		}
	}
	if !found {
		return fmt.Sprintf("fragment %q (text %q) is not a contiguous piece of the stored value %q", frag, text, value)
	}
	return fmt.Sprintf("fragment %q marks a span that is not a matched term location (locations %v, value %q)", frag, locs, value)
}

func TestC19Highlight(t *testing.T) {
	ev := Ev("C19")
	analyzers := c19Analyzers()
	checkPropN(t, "C19", 300, func(t *rapid.T) {
		an := rapid.SampledFrom(analyzers).Draw(t, "analyzer")
		if rapid.IntRange(0, 2).Draw(t, "customChain") == 0 {
			an = rapid.SampledFrom(c19CustomHighlightAnalyzers).Draw(t, "customAnalyzer")
		}
		eng := rapid.SampledFrom([]string{EngScorchMem, EngUDGtreap}).Draw(t, "engine")
		m := c19HighlightMapping(an)
		idx, err := Config{Engine: eng}.Create("", m)
		if err != nil {
			t.Fatalf("harness: %v", err)
		}
		defer idx.Close()
		analyzer := m.AnalyzerNamed(an)
		if analyzer == nil {
			t.Fatalf("harness: analyzer %q not found", an)
		}
		ndocs := rapid.IntRange(1, 3).Draw(t, "ndocs")
		values := map[string][]string{}
		var terms []string
		for i := 0; i < ndocs; i++ {
			var vals []interface{}
			for j, k := 0, rapid.IntRange(1, 2).Draw(t, "nvals"); j < k; j++ {
				in := genC19Input(t, "text")
				if len(in) > 2000 {
					in = in[:2000]
				}
				vals = append(vals, string(in))
				values[DocIDs[i]] = append(values[DocIDs[i]], string(in))
				for _, tok := range analyzer.Analyze([]byte(string(in))) {
					terms = append(terms, string(tok.Term))
				}
			}
			var v interface{} = vals
			if len(vals) == 1 {
				v = vals[0]
			}
			if err := idx.Index(DocIDs[i], map[string]interface{}{"t": v}); err != nil {
				t.Fatalf("index: %v", err)
			}
		}
		var composite []string
		for _, tm := range terms {
			if strings.ContainsAny(tm, " _") {
				composite = append(composite, tm)
			}
		}
		if len(terms) == 0 {
			return
		}
		var qs []string
		dq := bleve.NewDisjunctionQuery()
		for i, n := 0, rapid.IntRange(1, 3).Draw(t, "nterms"); i < n; i++ {
			tm := rapid.SampledFrom(terms).Draw(t, "term")
			if len(composite) > 0 && rapid.Bool().Draw(t, "compositeTerm") {
				// terms a combining filter made out of several tokens (shingles, with or without
				// fillers for removed tokens)
				tm = rapid.SampledFrom(composite).Draw(t, "cterm")
			}
			tq := bleve.NewTermQuery(tm)
			tq.SetField("t")
			dq.AddQuery(tq)
			qs = append(qs, tm)
		}
		style := rapid.SampledFrom([]string{"html", "html", "ansi"}).Draw(t, "style")
		req := bleve.NewSearchRequestOptions(dq, 10, 0, false)
		req.Highlight = bleve.NewHighlightWithStyle(style)
		req.IncludeLocations = true
		ctxDump = func() string {
			return fmt.Sprintf("C19 highlight analyzer %s engine %s terms %q values %q", an, eng, qs, values)
		}
		res, err := SearchWatchdog(idx, req)
		if err != nil {
			if strings.Contains(err.Error(), "panicked") || strings.Contains(err.Error(), "did not return") {
				t.Fatalf("highlight search (analyzer %s, %s, terms %q, values %q): %v", an, eng, qs, values, err)
			}
			// a search that is refused with an error is neither a panic nor a wrong fragment:
			// C19 does not say that every search over arbitrary bytes succeeds
			ev.Class("highlight-search-returned-an-error", 1)
			return
		}
		marks := 0
		for _, h := range res.Hits {
			if style != "html" {
				continue
			}
			for field, frags := range h.Fragments {
				for _, frag := range frags {
					marks += strings.Count(frag, "<mark>")
					// locations per array element: the fragment comes from one element
					okAny := ""
					matched := false
					for ai, val := range values[h.ID] {
						var locs [][2]int
						for _, tl := range h.Locations[field] {
							for _, l := range tl {
								single := len(values[h.ID]) == 1
								if single && len(l.ArrayPositions) == 0 || !single && len(l.ArrayPositions) == 1 && int(l.ArrayPositions[0]) == ai {
									locs = append(locs, [2]int{int(l.Start), int(l.End)})
								}
							}
						}
						m := checkHTMLFragment(frag, val, locs)
						if m == "" {
							matched = true
							break
						}
						okAny = m
					}
					if !matched {
						t.Fatalf("analyzer %s on %s, terms %q: %s", an, eng, qs, okAny)
					}
				}
			}
		}
		ev.Case(marks >= 2, map[string]interface{}{"an": an, "eng": eng, "values": values, "terms": qs, "style": style},
			map[string]interface{}{"analyzer": an, "engine": eng, "terms": qs, "style": style, "hits": len(res.Hits)}, "highlight:"+style, "highlight-analyzer:"+an)
	})
}

func TestC19HighlighterDirect(t *testing.T) {
	ev := Ev("C19")
	cache := registry.NewCache()
	for _, size := range []float64{1, 5, 20, 200} {
		name := fmt.Sprintf("c19frag%d", int(size))
		if _, err := cache.DefineFragmenter(name, map[string]interface{}{"type": "simple", "size": size}); err != nil {
			t.Fatalf("harness: %v", err)
		}
		if _, err := cache.DefineHighlighter(fmt.Sprintf("c19hl%d", int(size)), map[string]interface{}{"type": "simple", "fragmenter": name, "formatter": "html"}); err != nil {
			t.Fatalf("harness: %v", err)
		}
	}
	names := []string{"html", "ansi", "c19hl1", "c19hl5", "c19hl20", "c19hl200"}
	checkPropN(t, "C19", 1500, func(t *rapid.T) {
		hlName := rapid.SampledFrom(names).Draw(t, "highlighter")
		hl, err := cache.HighlighterNamed(hlName)
		if err != nil {
			t.Fatalf("harness: %v", err)
		}
		value := genC19Input(t, "value")
		if len(value) > 3000 {
			value = value[:3000]
		}
		doc := document.NewDocument("x")
		arr := []uint64{}
		if rapid.Bool().Draw(t, "array") {
			arr = []uint64{uint64(rapid.IntRange(0, 2).Draw(t, "arrpos"))}
		}
		doc.AddField(document.NewTextFieldWithIndexingOptions("t", arr, value, document.DefaultTextIndexingOptions))
		dm := &search.DocumentMatch{ID: "x", Locations: search.FieldTermLocationMap{"t": search.TermLocationMap{}}}
		nl := rapid.IntRange(0, 6).Draw(t, "nlocs")
		for i := 0; i < nl; i++ {
			start := rapid.IntRange(0, len(value)+3).Draw(t, "start")
			end := start + rapid.IntRange(0, 12).Draw(t, "len")
			term := rapid.SampledFrom([]string{"a", "b", "c"}).Draw(t, "lterm")
			ap := search.ArrayPositions(nil)
			if len(arr) > 0 && rapid.IntRange(0, 3).Draw(t, "sameArr") != 0 {
				ap = search.ArrayPositions(arr)
			}
			dm.Locations["t"][term] = append(dm.Locations["t"][term], &search.Location{Pos: uint64(i + 1), Start: uint64(start), End: uint64(end), ArrayPositions: ap})
		}
		num := rapid.IntRange(1, 3).Draw(t, "num")
		what := fmt.Sprintf("highlighter %s on value %q with locations %s", hlName, truncateBytes(value), canonJSON(dm.Locations))
		ctxDump = func() string { return "C19 " + what }
		var frags []string
		if msg := guarded(what, func() { frags = hl.BestFragmentsInField(dm, doc, "t", num) }); msg != "" {
			t.Fatalf("%s", msg)
		}
		ev.Case(nl >= 2 && len(frags) > 0, map[string]interface{}{"hl": hlName, "value": value, "locs": dm.Locations}, nil, "direct-highlighter:"+hlName)
	})
}

var _ highlight.Highlighter
