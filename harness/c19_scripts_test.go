package harness

import (
	"fmt"
	"strings"
	"testing"

	"pgregory.net/rapid"
)

// C19, script-aware inputs.  The language analyzers and their filters look at particular
// ranges of particular scripts and at base-character + modifier pairs (voiced marks after
// kana, harakat and tatweel after Arabic letters, matras and joiners after Devanagari letters,
// combining accents and apostrophes after Latin letters).  Uniformly random text almost never
// contains such a pair, let alone one at the edge of the range a table covers, so this
// generator builds text from "units": a base rune drawn from the blocks of one script family
// (block edges over-weighted), optionally followed by a modifier of the same family.

type c19Family struct {
	name      string
	blocks    [][2]rune
	modifiers []rune
}

var c19Families = []c19Family{
	{"japanese", [][2]rune{{0x30A0, 0x30FF}, {0x31F0, 0x31FF}, {0xFF65, 0xFF9F}, {0x3040, 0x309F}, {0x4E00, 0x4E20}, {0xFF10, 0xFF5A}},
		[]rune{0xFF9E, 0xFF9F, 0x3099, 0x309A, 0x30FC, 0xFF70, 0x3005}},
	{"korean", [][2]rune{{0xAC00, 0xAC40}, {0x1100, 0x11FF}, {0x3130, 0x318F}, {0xFFA0, 0xFFDC}}, []rune{0x1161, 0x11A8, 0x302E}},
	{"arabic-persian", [][2]rune{{0x0600, 0x06FF}, {0x0750, 0x077F}, {0xFB50, 0xFBFF}, {0xFE70, 0xFEFF}},
		[]rune{0x0640, 0x064B, 0x064E, 0x0651, 0x0652, 0x0670, 0x200C, 0x200D, 0x0654}},
	{"indic", [][2]rune{{0x0900, 0x097F}, {0x0980, 0x09FF}, {0x0B80, 0x0BFF}}, []rune{0x093C, 0x093E, 0x0941, 0x094D, 0x0902, 0x200D, 0x200C}},
	// symbols that fold or decompose into several characters (enclosed and parenthesised
	// alphanumerics, number forms, letterlike symbols, super/subscripts, ligatures, fullwidth
	// forms) among plain ASCII, so that nothing else in the text offers slack
	{"symbols-among-ascii", [][2]rune{{0x2460, 0x24FF}, {0x0041, 0x007A}, {0x2150, 0x218F}, {0x2100, 0x214F}, {0x2070, 0x209F}, {0xFB00, 0xFB06}, {0xFF01, 0xFF5E}, {0x0030, 0x0039}, {0x3200, 0x32FF}, {0x1F100, 0x1F1FF}},
		[]rune{0x20DD, 0xFE0F, '.', ')', 0x00B2}},
	{"latin-greek-cyrillic", [][2]rune{{0x0041, 0x007A}, {0x00C0, 0x017F}, {0x0370, 0x03FF}, {0x0400, 0x04FF}, {0x1E00, 0x1EFF}, {0xFB00, 0xFB06}},
		[]rune{0x0301, 0x0308, 0x0327, 0x0342, 0x0345, '\'', 0x2019, 0x02BC, '-', 0x00AD}},
}

func genC19ScriptInput(t *rapid.T, label string) (string, string) {
	fam := rapid.SampledFrom(c19Families).Draw(t, label+".family")
	var sb strings.Builder
	for i, n := 0, rapid.IntRange(1, 10).Draw(t, label+".units"); i < n; i++ {
		b := rapid.SampledFrom(fam.blocks).Draw(t, label+".block")
		var r rune
		switch rapid.IntRange(0, 3).Draw(t, label+".edge") {
		case 0: // within 6 code points of the block's start
			r = b[0] + rune(rapid.IntRange(0, 6).Draw(t, label+".lo"))
		case 1: // within 6 code points of its end
			r = b[1] - rune(rapid.IntRange(0, 6).Draw(t, label+".hi"))
		default:
			r = rune(rapid.IntRange(int(b[0]), int(b[1])).Draw(t, label+".r"))
		}
		sb.WriteRune(r)
		if rapid.Bool().Draw(t, label+".mod") {
			sb.WriteRune(rapid.SampledFrom(fam.modifiers).Draw(t, label+".modifier"))
		}
		if rapid.IntRange(0, 4).Draw(t, label+".space") == 0 {
			sb.WriteString(" ")
		}
	}
	return sb.String(), fam.name
}

func TestC19Scripts(t *testing.T) {
	ev := Ev("C19")
	comps := c19Setup(t)
	checkPropN(t, "C19", 4000, func(t *rapid.T) {
		s, fam := genC19ScriptInput(t, "in")
		input := []byte(s)
		baseTk := rapid.IntRange(0, 3).Draw(t, "baseTokenizer")
		ctxDump = func() string { return fmt.Sprintf("C19 components on input %q", s) }
		tokens := 0
		for _, c := range comps {
			msg, ntok := c19RunComponent(c, input, baseTk)
			if msg != "" {
				t.Fatalf("%s", msg)
			}
			tokens += ntok
		}
		ev.Case(tokens >= 2, "script/"+s, map[string]interface{}{"input": s, "family": fam, "components": len(comps)}, "script-aware-input", "script:"+fam)
	})
}
