package harness

import (
	"encoding/json"
	"fmt"
	"os"
	"strings"
	"testing"

	"pgregory.net/rapid"
)

// C19, script-aware inputs.  The language analyzers and their filters look at particular
// ranges of particular scripts and at base-character + modifier pairs (voiced marks after
// kana, harakat and tatweel after Arabic letters, matras and joiners after Devanagari letters,
// combining accents and apostrophes after Latin letters).  Uniformly random text almost never
// contains such a pair, let alone one at the edge of the range a table covers, so this
// generator builds text from "units": a base rune drawn from the blocks of one script family
// (block edges over-weighted), optionally followed by a modifier of the same family.

type c19Family struct {
	name      string
	blocks    [][2]rune
	modifiers []rune
}

var c19Families = []c19Family{
	{"japanese", [][2]rune{{0x30A0, 0x30FF}, {0x31F0, 0x31FF}, {0xFF65, 0xFF9F}, {0x3040, 0x309F}, {0x4E00, 0x4E20}, {0xFF10, 0xFF5A}},
		[]rune{0xFF9E, 0xFF9F, 0x3099, 0x309A, 0x30FC, 0xFF70, 0x3005}},
	{"korean", [][2]rune{{0xAC00, 0xAC40}, {0x1100, 0x11FF}, {0x3130, 0x318F}, {0xFFA0, 0xFFDC}}, []rune{0x1161, 0x11A8, 0x302E}},
	{"arabic-persian", [][2]rune{{0x0600, 0x06FF}, {0x0750, 0x077F}, {0xFB50, 0xFBFF}, {0xFE70, 0xFEFF}},
		[]rune{0x0640, 0x064B, 0x064E, 0x0651, 0x0652, 0x0670, 0x200C, 0x200D, 0x0654}},
	{"indic", [][2]rune{{0x0900, 0x097F}, {0x0980, 0x09FF}, {0x0B80, 0x0BFF}}, []rune{0x093C, 0x093E, 0x0941, 0x094D, 0x0902, 0x200D, 0x200C}},
	// symbols that fold or decompose into several characters (enclosed and parenthesised
	// alphanumerics, number forms, letterlike symbols, super/subscripts, ligatures, fullwidth
	// forms) among plain ASCII, so that nothing else in the text offers slack
	{"symbols-among-ascii", [][2]rune{{0x2460, 0x24FF}, {0x0041, 0x007A}, {0x2150, 0x218F}, {0x2100, 0x214F}, {0x2070, 0x209F}, {0xFB00, 0xFB06}, {0xFF01, 0xFF5E}, {0x0030, 0x0039}, {0x3200, 0x32FF}, {0x1F100, 0x1F1FF}},
		[]rune{0x20DD, 0xFE0F, '.', ')', 0x00B2}},
	{"latin-greek-cyrillic", [][2]rune{{0x0041, 0x007A}, {0x00C0, 0x017F}, {0x0370, 0x03FF}, {0x0400, 0x04FF}, {0x1E00, 0x1EFF}, {0xFB00, 0xFB06}},
		[]rune{0x0301, 0x0308, 0x0327, 0x0342, 0x0345, '\'', 0x2019, 0x02BC, '-', 0x00AD}},
}

func genC19ScriptInput(t *rapid.T, label string) (string, string) {
	fam := rapid.SampledFrom(c19Families).Draw(t, label+".family")
	var sb strings.Builder
	for i, n := 0, rapid.IntRange(1, 10).Draw(t, label+".units"); i < n; i++ {
		b := rapid.SampledFrom(fam.blocks).Draw(t, label+".block")
		var r rune
		switch rapid.IntRange(0, 3).Draw(t, label+".edge") {
		case 0: // within 6 code points of the block's start
			r = b[0] + rune(rapid.IntRange(0, 6).Draw(t, label+".lo"))
		case 1: // within 6 code points of its end
			r = b[1] - rune(rapid.IntRange(0, 6).Draw(t, label+".hi"))
		default:
			r = rune(rapid.IntRange(int(b[0]), int(b[1])).Draw(t, label+".r"))
		}
		sb.WriteRune(r)
		if rapid.Bool().Draw(t, label+".mod") {
			sb.WriteRune(rapid.SampledFrom(fam.modifiers).Draw(t, label+".modifier"))
		}
		if rapid.IntRange(0, 4).Draw(t, label+".space") == 0 {
			sb.WriteString(" ")
		}
	}
	return sb.String(), fam.name
}

func TestC19Scripts(t *testing.T) {
	ev := Ev("C19")
	comps := c19Setup(t)
	checkPropN(t, "C19", 4000, func(t *rapid.T) {
		s, fam := genC19ScriptInput(t, "in")
		input := []byte(s)
		baseTk := rapid.IntRange(0, 3).Draw(t, "baseTokenizer")
		ctxDump = func() string { return fmt.Sprintf("C19 components on input %q", s) }
		tokens := 0
		for _, c := range comps {
			msg, ntok := c19RunComponent(c, input, baseTk)
			if msg != "" {
				t.Fatalf("%s", msg)
			}
			tokens += ntok
		}
		ev.Case(tokens >= 2, "script/"+s, map[string]interface{}{"input": s, "family": fam, "components": len(comps)}, "script-aware-input", "script:"+fam)
	})
}

// TestC19EveryRune: every code point of the Basic Multilingual Plane (and, in the thorough tier,
// of the supplementary planes in use), alone and between two ASCII letters, through every
// character filter, tokenizer, token filter and analyzer.  Tables indexed by code point, output
// buffers sized from the input and per-script special cases fail for particular runes, which
// random text meets too rarely.
func TestC19EveryRune(t *testing.T) {
	ev := Ev("C19")
	comps := c19Setup(t)
	limit := rune(0xFFFF)
	if thorough() {
		limit = 0x2FFFF
	}
	n, multi := 0, 0
	shard, nshards := envInt("VERIF_SHARD", 0), envInt("VERIF_NSHARDS", 1) // the driver's shards split the range
	if nshards < 1 {
		nshards = 1
	}
	for r := rune(1); r <= limit; r++ {
		if r >= 0xD800 && r <= 0xDFFF || int(r)%nshards != shard%nshards {
			continue
		}
		for _, s := range []string{string(r), "a" + string(r) + "b"} {
			input := []byte(s)
			for _, c := range comps {
				if c.kind == "analyzer" && !thorough() && r > 0x3FFF && r%4 != 0 {
					continue // quick tier: analyzers see a quarter of the upper BMP
				}
				msg, ntok := c19RunComponent(c, input, 0)
				if msg != "" {
					writeReplayJSON("C19", map[string]interface{}{"rune": fmt.Sprintf("U+%04X", r), "input": s, "component": c.kind + ":" + c.name})
					t.Fatalf("rune U+%04X: %s", r, msg)
				}
				if ntok >= 2 {
					multi++
				}
			}
			n++
		}
	}
	ev.mu.Lock()
	ev.Extra["every_rune_inputs"] = n
	ev.mu.Unlock()
	ev.Class("every-rune-inputs", n)
	ev.Class("every-rune-inputs-split-into-several-tokens", multi)
}

// TestC19Replay re-runs one saved (component, input) pair (VERIF_REPLAY=<file>).
func TestC19Replay(t *testing.T) {
	path := os.Getenv("VERIF_REPLAY")
	if path == "" {
		t.Skip("no VERIF_REPLAY")
	}
	raw, err := os.ReadFile(path)
	if err != nil {
		t.Fatalf("harness: %v", err)
	}
	var c struct {
		Input     string `json:"input"`
		Component string `json:"component"`
	}
	if err := json.Unmarshal(raw, &c); err != nil {
		t.Fatalf("harness: %v", err)
	}
	for _, comp := range c19Setup(t) {
		if comp.kind+":"+comp.name == c.Component {
			if msg, _ := c19RunComponent(comp, []byte(c.Input), 0); msg != "" {
				t.Fatalf("%s", msg)
			}
			return
		}
	}
	t.Fatalf("harness: component %q not found", c.Component)
}
