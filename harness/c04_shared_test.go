//go:build verif

package harness

import (
	"fmt"
	"runtime"
	"sort"
	"strings"
	"sync"
	"testing"

	"github.com/blevesearch/bleve/v2"
	"pgregory.net/rapid"
)

// C04, contended ids: several writers call Batch / Index / Delete on the SAME small set of
// document ids at the same time.  Whatever the interleaving, the index must end in the state
// some serial order of the calls produces: every id holds the version written by the last
// call that touched it in that order (so, by one of the writers' own last calls on that id),
// is listed once, counted once, and is found under the terms of that version only.

type c04sCall struct {
	Batch bool `json:"batch,omitempty"`
	Ops   []Op `json:"ops"`
}

func TestC04SharedIDs(t *testing.T) {
	ev := Ev("C04")
	checkPropN(t, "C04", 60, func(t *rapid.T) {
		cfg := GenConfig(t, "cfg", []string{EngUDGtreap, EngUDGtreap, EngUDBolt, EngUDMoss, EngScorchMem, EngScorchDisk})
		pool := DocIDs[:rapid.IntRange(1, 3).Draw(t, "npool")]
		nw := rapid.IntRange(2, 4).Draw(t, "nwriters")
		plans := make([][]c04sCall, nw)
		filler := strings.Repeat("ab abc abd b ba cab x a ", rapid.SampledFrom([]int{1, 20, 200}).Draw(t, "fill"))
		stamps := map[string]bool{}
		lastStamp := make([]map[string]string, nw) // writer -> id -> stamp of its last call on the id ("" = delete)
		for w := range plans {
			lastStamp[w] = map[string]string{}
			for j, n := 0, rapid.IntRange(2, 10).Draw(t, "ncalls"); j < n; j++ {
				c := c04sCall{Batch: rapid.Bool().Draw(t, "batch")}
				nops := 1
				if c.Batch {
					nops = rapid.IntRange(1, 4).Draw(t, "nops")
				}
				for k := 0; k < nops; k++ {
					id := rapid.SampledFrom(pool).Draw(t, "id")
					if rapid.IntRange(0, 3).Draw(t, "del") == 0 {
						c.Ops = append(c.Ops, Op{Kind: OpDelete, ID: id})
						lastStamp[w][id] = ""
					} else {
						stamp := fmt.Sprintf("w%dc%dk%d", w, j, k)
						stamps[stamp] = true
						c.Ops = append(c.Ops, Op{Kind: OpIndex, ID: id, Doc: Doc{"k": {S: []string{stamp}}, "t": {S: []string{filler + Vocab[(w+j)%len(Vocab)]}}}})
						lastStamp[w][id] = stamp
					}
				}
				plans[w] = append(plans[w], c)
			}
		}
		procs := rapid.SampledFrom([]int{2, 4, 16}).Draw(t, "gomaxprocs")
		old := runtime.GOMAXPROCS(procs)
		defer runtime.GOMAXPROCS(old)
		if cfg.Engine == EngScorchDisk {
			InstallHook(HookPlan{Mode: "delay", DelaySeed: rapid.Uint64().Draw(t, "delaySeed"), DelayMaxUS: 500})
			defer ClearHook()
		}
		idx, err := cfg.Create(TempDir(t), WorldMapping())
		if err != nil {
			t.Fatalf("create: %v", err)
		}
		defer idx.Close()
		var wg sync.WaitGroup
		errs := make(chan error, nw)
		start := make(chan struct{})
		for w := range plans {
			wg.Add(1)
			go func(w int) {
				defer wg.Done()
				<-start
				for _, c := range plans[w] {
					var err error
					if c.Batch {
						err = ApplyBatch(idx, c.Ops)
					} else {
						err = ApplySingle(idx, c.Ops[0])
					}
					if err != nil {
						errs <- fmt.Errorf("writer %d: %v", w, err)
						return
					}
				}
			}(w)
		}
		close(start)
		wg.Wait()
		close(errs)
		for err := range errs {
			t.Fatalf("config %s: %v", cfg, err)
		}
		desc := func() string { return fmt.Sprintf("config %s, GOMAXPROCS=%d, writers %s", cfg, procs, canonJSON(plans)) }
		// the final version of every id
		final := map[string]string{}
		for _, id := range pool {
			d, err := idx.Document(id)
			if err != nil {
				t.Fatalf("Document(%s): %v", id, err)
			}
			got := ""
			if d != nil {
				var ks []string
				for _, f := range StoredFieldsOf(d) {
					if strings.HasPrefix(f, "k") {
						ks = append(ks, f)
					}
				}
				if len(ks) != 1 {
					t.Fatalf("document %s holds %d values of field k after concurrent writes: %v (stored fields %v)\n%s", id, len(ks), ks, StoredFieldsOf(d), desc())
				}
				got = ks[0][strings.Index(ks[0], "\"")+1 : strings.LastIndex(ks[0], "\"")]
				final[id] = got
			}
			allowed := false
			touched := false
			for w := range plans {
				if s, ok := lastStamp[w][id]; ok {
					touched = true
					if s == got {
						allowed = true
					}
				}
			}
			if touched && !allowed || !touched && got != "" {
				t.Fatalf("document %s ends as %q, which is not the last call on that id of any writer (their last calls: %v)\n%s", id, got, func() []string {
					var l []string
					for w := range plans {
						if s, ok := lastStamp[w][id]; ok {
							l = append(l, fmt.Sprintf("writer%d:%q", w, s))
						}
					}
					return l
				}(), desc())
			}
		}
		var live []string
		for id := range final {
			live = append(live, id)
		}
		sort.Strings(live)
		// listed once, counted once
		if dc, err := idx.DocCount(); err != nil || int(dc) != len(live) {
			t.Fatalf("DocCount=%d err=%v but %d documents exist (%v)\n%s", dc, err, len(live), live, desc())
		}
		req := bleve.NewSearchRequestOptions(bleve.NewMatchAllQuery(), 100, 0, false)
		req.SortBy([]string{"_id"})
		res, err := idx.Search(req)
		if err != nil {
			t.Fatalf("match-all: %v", err)
		}
		if got := hitIDs(res); strings.Join(got, ",") != strings.Join(live, ",") || int(res.Total) != len(live) {
			t.Fatalf("match-all returns %v (Total %d), the documents that exist are %v\n%s", got, res.Total, live, desc())
		}
		// found under the terms of the final version only
		for stamp := range stamps {
			q := bleve.NewTermQuery(stamp)
			q.SetField("k")
			r, err := idx.Search(bleve.NewSearchRequestOptions(q, 100, 0, false))
			if err != nil {
				t.Fatalf("term search: %v", err)
			}
			var want []string
			for _, id := range live {
				if final[id] == stamp {
					want = append(want, id)
				}
			}
			got := hitIDs(r)
			sort.Strings(got)
			if strings.Join(got, ",") != strings.Join(want, ",") {
				t.Fatalf("k:%s matches %v, but the documents whose current version carries it are %v (final versions %v)\n%s", stamp, got, want, final, desc())
			}
		}
		contended := 0
		for _, id := range pool {
			n := 0
			for w := range plans {
				if _, ok := lastStamp[w][id]; ok {
					n++
				}
			}
			if n >= 2 {
				contended++
			}
		}
		ev.Case(contended > 0, map[string]interface{}{"cfg": cfg, "plans": plans, "procs": procs},
			map[string]interface{}{"cfg": cfg, "writers": nw, "ids": pool, "ids_written_by_two_or_more_writers": contended, "final_versions": final, "gomaxprocs": procs},
			"contended-ids", "engine:"+cfg.Engine)
	})
}

// TestC04ReaderSelfConsistent: while writers add and delete documents, clients keep taking
// index readers; each reader's DocCount must equal the number of documents the same reader
// enumerates (a reader shows the index "exactly as it was after some prefix" - its count and
// its contents cannot come from two different moments).
func TestC04ReaderSelfConsistent(t *testing.T) {
	ev := Ev("C04")
	checkPropN(t, "C04", 24, func(t *rapid.T) {
		cfg := GenConfig(t, "cfg", []string{EngUDGtreap, EngUDGtreap, EngUDBolt, EngUDMoss, EngUDLevel, EngScorchMem, EngScorchDisk})
		nw := rapid.IntRange(1, 3).Draw(t, "nwriters")
		nc := rapid.IntRange(1, 3).Draw(t, "nclients")
		ncalls := rapid.IntRange(20, 120).Draw(t, "ncalls")
		batchy := rapid.Bool().Draw(t, "batches")
		procs := rapid.SampledFrom([]int{2, 4, 16}).Draw(t, "gomaxprocs")
		old := runtime.GOMAXPROCS(procs)
		defer runtime.GOMAXPROCS(old)
		idx, err := cfg.Create(TempDir(t), WorldMapping())
		if err != nil {
			t.Fatalf("create: %v", err)
		}
		defer idx.Close()
		adv, _ := idx.Advanced()
		var wg, cg sync.WaitGroup
		stop := make(chan struct{})
		problems := make(chan string, nc+nw)
		for w := 0; w < nw; w++ {
			wg.Add(1)
			go func(w int) {
				defer wg.Done()
				// each writer adds and removes its own ids, so the count keeps moving
				for j := 0; j < ncalls; j++ {
					id := fmt.Sprintf("r%d-%d", w, j%7)
					var err error
					switch {
					case j%3 == 2:
						err = idx.Delete(id)
					case batchy:
						b := idx.NewBatch()
						_ = b.Index(id, map[string]interface{}{"t": "a b"})
						_ = b.Index(fmt.Sprintf("r%d-x%d", w, j%5), map[string]interface{}{"t": "x"})
						err = idx.Batch(b)
					default:
						err = idx.Index(id, map[string]interface{}{"t": "a b"})
					}
					if err != nil {
						problems <- fmt.Sprintf("writer %d: %v", w, err)
						return
					}
				}
			}(w)
		}
		readers := make([]int, nc)
		for c := 0; c < nc; c++ {
			cg.Add(1)
			go func(c int) {
				defer cg.Done()
				for {
					select {
					case <-stop:
						return
					default:
					}
					r, err := adv.Reader()
					if err != nil {
						problems <- "Reader: " + err.Error()
						return
					}
					_, problem := readerDigest(r, nil, nil)
					r.Close()
					readers[c]++
					if problem != "" {
						problems <- fmt.Sprintf("client %d, reader #%d: %s", c, readers[c], problem)
						return
					}
				}
			}(c)
		}
		wg.Wait()
		close(stop)
		cg.Wait()
		close(problems)
		for p := range problems {
			t.Fatalf("config %s, %d writers x %d calls (batches=%v), %d clients, GOMAXPROCS=%d: %s", cfg, nw, ncalls, batchy, nc, procs, p)
		}
		total := 0
		for _, n := range readers {
			total += n
		}
		ev.Case(total >= 10, map[string]interface{}{"cfg": cfg, "nw": nw, "nc": nc, "ncalls": ncalls, "batchy": batchy, "procs": procs},
			map[string]interface{}{"cfg": cfg, "writers": nw, "clients": nc, "calls_per_writer": ncalls, "readers_taken_during_the_writes": total, "gomaxprocs": procs},
			"reader-self-consistency", "engine:"+cfg.Engine)
	})
}
