//go:build verif

package harness

import (
	"fmt"
	"os"
	"sort"
	"strings"
	"testing"
	"time"

	"github.com/blevesearch/bleve/v2"
	"github.com/blevesearch/bleve/v2/mapping"
	"github.com/blevesearch/bleve/v2/search/query"
	"pgregory.net/rapid"
)

// C20 — nested-object search respects object boundaries and returns each parent once.

type nSub struct{ U, V string }
type nA struct {
	X, Y string
	Sub  []nSub
}
type nB struct{ Z string }
type nDoc struct {
	Title, Tag string
	A          []nA
	B          []nB
}

// c20Names: the names of the sibling array and of the top-level tag field in the index (the
// model always calls them B and tag).  Names that extend the name of the nested array A
// ("AB", "Atag") must not be taken for fields of A.
type c20NameSet struct{ B, Tag string }

var c20Names = c20NameSet{"B", "tag"}

func c20Field(logical string) string {
	switch {
	case logical == "tag":
		return c20Names.Tag
	case strings.HasPrefix(logical, "B."):
		return c20Names.B + logical[1:]
	}
	return logical
}

func (d nDoc) toBleve() map[string]interface{} {
	m := map[string]interface{}{"title": d.Title, c20Names.Tag: d.Tag}
	if c20TypeMapped {
		m["_type"] = "ntype"
	}
	var as []interface{}
	for _, a := range d.A {
		am := map[string]interface{}{"x": a.X, "y": a.Y}
		var subs []interface{}
		for _, s := range a.Sub {
			subs = append(subs, map[string]interface{}{"u": s.U, "v": s.V})
		}
		am["sub"] = subs
		as = append(as, am)
	}
	m["A"] = as
	var bs []interface{}
	for _, b := range d.B {
		bs = append(bs, map[string]interface{}{"z": b.Z})
	}
	m[c20Names.B] = bs
	return m
}

func c20Mapping(nested bool) mapping.IndexMapping {
	kw := func() *mapping.FieldMapping {
		f := bleve.NewTextFieldMapping()
		f.Analyzer = "keyword"
		f.IncludeInAll = false
		return f
	}
	mk := func() *mapping.DocumentMapping {
		if nested {
			return mapping.NewNestedDocumentMapping()
		}
		return bleve.NewDocumentMapping()
	}
	m := bleve.NewIndexMapping()
	dm := bleve.NewDocumentStaticMapping()
	dm.AddFieldMappingsAt("title", kw())
	dm.AddFieldMappingsAt(c20Names.Tag, kw())
	a := mk()
	a.Dynamic = false
	a.AddFieldMappingsAt("x", kw())
	a.AddFieldMappingsAt("y", kw())
	sub := mk()
	sub.Dynamic = false
	sub.AddFieldMappingsAt("u", kw())
	sub.AddFieldMappingsAt("v", kw())
	a.AddSubDocumentMapping("sub", sub)
	dm.AddSubDocumentMapping("A", a)
	b := mk()
	b.Dynamic = false
	b.AddFieldMappingsAt("z", kw())
	dm.AddSubDocumentMapping(c20Names.B, b)
	if c20TypeMapped {
		// the nested arrays are declared in a type mapping only; every document names that type
		m.AddDocumentMapping("ntype", dm)
		plain := bleve.NewDocumentStaticMapping()
		m.DefaultMapping = plain
	} else {
		m.DefaultMapping = dm
	}
	return m
}

// c20TypeMapped: declare the document structure under a type mapping ("ntype", selected by the
// documents' _type property) instead of the default mapping.
var c20TypeMapped = false

var c20Words = []string{"p", "q", "r"}

// c20Dense: two words only and more elements per array, so that most parents meet each clause
// of a nested conjunction somewhere - in one element or across several
var c20Dense = false

func genNDoc(t *rapid.T) nDoc {
	w := func(l string) string { return rapid.SampledFrom(c20Words).Draw(t, l) }
	d := nDoc{Title: w("title"), Tag: w("tag")}
	minA, maxA, minS, maxS := 0, 3, 0, 2
	if c20Dense {
		minA, maxA, minS, maxS = 1, 4, 1, 3
	}
	for i, n := 0, rapid.IntRange(minA, maxA).Draw(t, "nA"); i < n; i++ {
		a := nA{X: w("x"), Y: w("y")}
		for j, k := 0, rapid.IntRange(minS, maxS).Draw(t, "nSub"); j < k; j++ {
			a.Sub = append(a.Sub, nSub{U: w("u"), V: w("v")})
		}
		d.A = append(d.A, a)
	}
	for i, n := 0, rapid.IntRange(0, 2).Draw(t, "nB"); i < n; i++ {
		d.B = append(d.B, nB{Z: w("z")})
	}
	return d
}

// nested query AST: leaves are (field, word); Inner is the all-on-A conjunction.
type nLeaf struct{ Field, Word string }
type nQuery struct {
	Inner []nLeaf `json:"inner"`
	Shape string  `json:"shape"` // alone | conj | disj | bool-must-should | bool-must-not | bool-should-only | bool-not-inner
	Other *nLeaf  `json:"other,omitempty"`
}

func (l nLeaf) bleve() query.Query {
	q := bleve.NewTermQuery(l.Word)
	q.SetField(c20Field(l.Field))
	return q
}

func (q nQuery) bleve() query.Query {
	var cs []query.Query
	for _, l := range q.Inner {
		cs = append(cs, l.bleve())
	}
	inner := bleve.NewConjunctionQuery(cs...)
	switch q.Shape {
	case "alone":
		return inner
	case "conj":
		return bleve.NewConjunctionQuery(inner, q.Other.bleve())
	case "disj":
		return bleve.NewDisjunctionQuery(inner, q.Other.bleve())
	case "bool-must-should":
		b := bleve.NewBooleanQuery()
		b.AddMust(inner)
		b.AddShould(q.Other.bleve())
		return b
	case "bool-must-not":
		b := bleve.NewBooleanQuery()
		b.AddMust(inner)
		b.AddMustNot(q.Other.bleve())
		return b
	case "bool-should-only":
		b := bleve.NewBooleanQuery()
		b.AddShould(inner, q.Other.bleve())
		b.SetMinShould(1)
		return b
	default: // bool-not-inner
		b := bleve.NewBooleanQuery()
		b.AddMust(q.Other.bleve())
		b.AddMustNot(inner)
		return b
	}
}

// leafMatchesParent: some element (anywhere) satisfies the leaf.
func leafMatchesParent(d nDoc, l nLeaf) bool {
	switch l.Field {
	case "title":
		return d.Title == l.Word
	case "tag":
		return d.Tag == l.Word
	case "B.z":
		for _, b := range d.B {
			if b.Z == l.Word {
				return true
			}
		}
	case "A.x", "A.y", "A.sub.u", "A.sub.v":
		for _, a := range d.A {
			if aMatches(a, l) {
				return true
			}
		}
	}
	return false
}

func aMatches(a nA, l nLeaf) bool {
	switch l.Field {
	case "A.x":
		return a.X == l.Word
	case "A.y":
		return a.Y == l.Word
	case "A.sub.u", "A.sub.v":
		for _, s := range a.Sub {
			if l.Field == "A.sub.u" && s.U == l.Word || l.Field == "A.sub.v" && s.V == l.Word {
				return true
			}
		}
	}
	return false
}

// innerMatches: nested = one element of A (and, for sub fields, one sub element of it for
// all sub leaves) satisfies every leaf; flat = every leaf is satisfied by some element.
func innerMatches(d nDoc, leaves []nLeaf, nested bool) bool {
	if !nested {
		for _, l := range leaves {
			if !leafMatchesParent(d, l) {
				return false
			}
		}
		return true
	}
	for _, a := range d.A {
		ok := true
		var subLeaves []nLeaf
		for _, l := range leaves {
			if strings.HasPrefix(l.Field, "A.sub.") {
				subLeaves = append(subLeaves, l)
			} else if !aMatches(a, l) {
				ok = false
			}
		}
		if !ok {
			continue
		}
		if len(subLeaves) == 0 {
			return true
		}
		for _, s := range a.Sub {
			all := true
			for _, l := range subLeaves {
				if !(l.Field == "A.sub.u" && s.U == l.Word || l.Field == "A.sub.v" && s.V == l.Word) {
					all = false
				}
			}
			if all {
				return true
			}
		}
	}
	return false
}

func (q nQuery) eval(d nDoc, nested bool) bool {
	in := innerMatches(d, q.Inner, nested)
	ot := q.Other != nil && leafMatchesParent(d, *q.Other)
	switch q.Shape {
	case "alone":
		return in
	case "conj":
		return in && ot
	case "disj", "bool-should-only":
		return in || ot
	case "bool-must-should":
		return in
	case "bool-must-not":
		return in && !ot
	default:
		return ot && !in
	}
}

const c20KnownBoolean = "C20/boolean-clauses-across-nesting-levels"

func genNQuery(t *rapid.T, allowBoolean bool) nQuery {
	w := func(l string) string { return rapid.SampledFrom(c20Words).Draw(t, l) }
	var q nQuery
	fields := rapid.SampledFrom([][]string{{"A.x", "A.y"}, {"A.x", "A.y"}, {"A.x", "A.sub.u"}, {"A.sub.u", "A.sub.v"}, {"A.x", "A.y", "A.sub.u"}, {"A.y", "A.sub.v"}}).Draw(t, "innerFields")
	for _, f := range fields {
		q.Inner = append(q.Inner, nLeaf{f, w("iw")})
	}
	shapes := []string{"alone", "alone", "conj", "disj"}
	if allowBoolean {
		shapes = append(shapes, "bool-must-should", "bool-must-not", "bool-should-only", "bool-not-inner")
	} else {
		// the open finding covers must-not clauses that sit on another nesting level than
		// the clause they are combined with; should clauses are unaffected
		shapes = append(shapes, "bool-must-should", "bool-should-only")
	}
	if v := os.Getenv("VERIF_C20_SHAPES"); v != "" {
		shapes = strings.Split(v, ",")
	}
	q.Shape = rapid.SampledFrom(shapes).Draw(t, "shape")
	if q.Shape != "alone" {
		q.Other = &nLeaf{rapid.SampledFrom([]string{"B.z", "B.z", "title", "tag"}).Draw(t, "otherField"), w("ow")}
	}
	return q
}

func runNQuery(idx bleve.Index, q query.Query) ([]string, uint64, error) {
	req := bleve.NewSearchRequestOptions(q, 50, 0, false)
	req.SortBy([]string{"_id"})
	res, err := SearchWatchdog(idx, req)
	if err != nil {
		return nil, 0, err
	}
	return hitIDs(res), res.Total, nil
}

func TestC20Nested(t *testing.T) {
	ev := Ev("C20")
	ev.SetRule("rapid: documents with top-level title/tag, nested arrays A{x,y,sub{u,v}} (two levels) and sibling array B{z} (the sibling array and the tag field are also given names that extend the nested array's name: AB, A_2, Atag, A_tag), 0-3 elements each over a 3-word vocabulary, indexed under the nested mapping and under its flat twin; histories with updates, deletes, re-creations, forced merges (between batches, and - through the batch.beforeIntroduce hook - between a batch's segment preparation and its introduction) and reopen on scorch (memory/disk); " +
		"queries: conjunctions of 2-3 leaves all on A (incl. chains A.x AND A.sub.u), alone or as a clause of a conjunction / disjunction / boolean with a clause on B, title or tag; " +
		"oracle = tree model (nested: one element of A - and one sub element for sub leaves - satisfies all conjuncts; other clauses per parent; flat: each leaf met by some element); hits are parent ids, each once, Total==len(hits), DocCount==#parents, match-all returns exactly the parents, deleted/updated parents vanish with their elements, nested hits are a subset of flat hits for pure conjunctions, SearchAfter/SearchBefore pages (sort _id) from a drawn matching parent are the following/preceding parents with the same Total; " +
		"non-trivial = some live parent has two elements that jointly but not individually satisfy the inner conjunction (nested and flat answers differ) and the history updated or deleted a parent")
	_, boolKnown := KnownOpen("C20", c20KnownBoolean)
	checkPropN(t, "C20", 250, func(t *rapid.T) {
		cfg := Config{Engine: rapid.SampledFrom([]string{EngScorchMem, EngScorchMem, EngScorchDisk}).Draw(t, "engine")}
		if cfg.Engine == EngScorchDisk {
			GenScorchDiskOpts(t, "cfg", &cfg)
		}
		c20TypeMapped = rapid.IntRange(0, 2).Draw(t, "typeMapped") == 0
		defer func() { c20TypeMapped = false }()
		c20Names = rapid.SampledFrom([]c20NameSet{{"B", "tag"}, {"B", "tag"}, {"AB", "tag"}, {"B", "Atag"}, {"A_2", "A_tag"}}).Draw(t, "names")
		defer func() { c20Names = c20NameSet{"B", "tag"} }()
		dir := TempDir(t)
		nidx, err := cfg.Create(dir+"/nested", c20Mapping(true))
		if err != nil {
			t.Fatalf("create nested index: %v", err)
		}
		defer func() { nidx.Close() }()
		fidx, err := Config{Engine: EngScorchMem}.Create("", c20Mapping(false))
		if err != nil {
			t.Fatalf("create flat index: %v", err)
		}
		defer fidx.Close()
		model := map[string]nDoc{}
		touched := false
		mergeWindows := 0
		// a small or a larger parent population: with a dozen parents the cursors of the clauses
		// of a nested conjunction run apart, wait for and jump over each other
		pool, maxOps := DocIDs[:5], 3
		if rapid.IntRange(0, 2).Draw(t, "bigpool") == 0 {
			pool, maxOps = BigDocIDs[:14], 6
			c20Dense, c20Words = true, []string{"p", "q"}
			defer func() { c20Dense, c20Words = false, []string{"p", "q", "r"} }()
		}
		nsteps := rapid.IntRange(1, 8).Draw(t, "nsteps")
		var hist []string
		for s := 0; s < nsteps; s++ {
			switch c := rapid.IntRange(0, 9).Draw(t, "step"); {
			case c < 7:
				nb, fb := nidx.NewBatch(), fidx.NewBatch()
				for i, n := 0, rapid.IntRange(1, maxOps).Draw(t, "nops"); i < n; i++ {
					id := rapid.SampledFrom(pool).Draw(t, "id")
					if _, live := model[id]; live {
						touched = true
					}
					if rapid.IntRange(0, 3).Draw(t, "del") == 0 {
						nb.Delete(id)
						fb.Delete(id)
						delete(model, id)
						hist = append(hist, "delete "+id)
					} else {
						d := genNDoc(t)
						if err := nb.Index(id, d.toBleve()); err != nil {
							t.Fatalf("index: %v", err)
						}
						_ = fb.Index(id, d.toBleve())
						model[id] = d
						hist = append(hist, fmt.Sprintf("index %s %+v", id, d))
					}
				}
				// a merge introduced between the batch's segment preparation (which computes the
				// obsoleted documents against the root of that moment) and its introduction
				inWindow := cfg.Engine == EngScorchDisk && rapid.IntRange(0, 2).Draw(t, "mergeInWindow") == 0
				if inWindow {
					fired := false
					InstallHook(HookPlan{})
					SetOnPoint(func(p string) {
						if p == "batch.beforeIntroduce" && !fired {
							fired = true
							_ = ForceMerge1(nidx)
						}
					})
					hist = append(hist, "(forced merge introduced while the next batch waits to be introduced)")
					mergeWindows++
				}
				err := nidx.Batch(nb)
				if inWindow {
					SetOnPoint(nil)
					ClearHook()
				}
				if err != nil {
					t.Fatalf("batch: %v", err)
				}
				if err := fidx.Batch(fb); err != nil {
					t.Fatalf("batch flat: %v", err)
				}
			case c < 9 && cfg.Engine == EngScorchDisk:
				if err := ForceMerge1(nidx); err != nil {
					t.Fatalf("force merge: %v", err)
				}
				hist = append(hist, "force-merge")
			case cfg.Engine == EngScorchDisk:
				if cfg.UnsafeBatch {
					_ = WaitPersisted(nidx, 30*time.Second)
				}
				if err := nidx.Close(); err != nil {
					t.Fatalf("close: %v", err)
				}
				nidx, err = cfg.Reopen(dir + "/nested")
				if err != nil {
					t.Fatalf("reopen: %v", err)
				}
				hist = append(hist, "reopen")
			}
		}
		var parents []string
		for id := range model {
			parents = append(parents, id)
		}
		sort.Strings(parents)
		desc := func() string {
			return fmt.Sprintf("config %s, type-mapped=%v, sibling array named %q, tag field named %q\n history %s", cfg, c20TypeMapped, c20Names.B, c20Names.Tag, strings.Join(hist, "\n         "))
		}
		// counts and match-all: parents only
		if dc, err := nidx.DocCount(); err != nil || int(dc) != len(parents) {
			t.Fatalf("DocCount=%d err=%v, %d parent documents are live (%v)\n%s", dc, err, len(parents), parents, desc())
		}
		if hits, total, err := runNQuery(nidx, bleve.NewMatchAllQuery()); err != nil || strings.Join(hits, ",") != strings.Join(parents, ",") || int(total) != len(parents) {
			t.Fatalf("match-all returned %v total %d err %v, live parents %v\n%s", hits, total, err, parents, desc())
		}
		for qi := 0; qi < 8; qi++ {
			nq := genNQuery(t, !boolKnown)
			if boolKnown && qi == 0 {
				ev.Exclude(c20KnownBoolean)
			}
			bq := nq.bleve()
			ctxDump = func() string { return fmt.Sprintf("C20 query %s\n%s", canonJSON(nq), desc()) }
			nh, ntot, err := runNQuery(nidx, bq)
			if err != nil {
				t.Fatalf("nested search %s: %v\n%s", canonJSON(nq), err, desc())
			}
			fh, ftot, err := runNQuery(fidx, bq)
			if err != nil {
				t.Fatalf("flat search %s: %v", canonJSON(nq), err)
			}
			var wantN, wantF []string
			for _, id := range parents {
				if nq.eval(model[id], true) {
					wantN = append(wantN, id)
				}
				if nq.eval(model[id], false) {
					wantF = append(wantF, id)
				}
			}
			check := func(kind string, got []string, total uint64, want []string) {
				seen := map[string]bool{}
				for _, id := range got {
					if seen[id] {
						t.Fatalf("%s mapping, query %s: parent %s returned twice (%v)\n%s", kind, canonJSON(nq), id, got, desc())
					}
					seen[id] = true
					if _, ok := model[id]; !ok {
						t.Fatalf("%s mapping, query %s: hit %q is not a live parent document (%v)\n%s", kind, canonJSON(nq), id, got, desc())
					}
				}
				if int(total) != len(got) {
					t.Fatalf("%s mapping, query %s: Total=%d with %d hits\n%s", kind, canonJSON(nq), total, len(got), desc())
				}
				if strings.Join(got, ",") != strings.Join(want, ",") {
					t.Fatalf("%s mapping, query %s: hits %v, the object model says %v\n docs %+v\n%s", kind, canonJSON(nq), got, want, model, desc())
				}
			}
			check("nested", nh, ntot, wantN)
			check("flat", fh, ftot, wantF)
			// paging through the parents with SearchAfter / SearchBefore (sort _id): pages are
			// parents too, Total stays the number of matching parents
			paged := false
			if len(wantN) >= 2 && rapid.Bool().Draw(t, "page") {
				paged = true
				k := rapid.IntRange(0, len(wantN)-1).Draw(t, "pageFrom")
				size := rapid.IntRange(1, 3).Draw(t, "pageSize")
				for _, before := range []bool{false, true} {
					req := bleve.NewSearchRequestOptions(bq, size, 0, false)
					req.SortBy([]string{"_id"})
					var want []string
					if before {
						req.SetSearchBefore([]string{wantN[k]})
						lo := k - size
						if lo < 0 {
							lo = 0
						}
						want = wantN[lo:k]
					} else {
						req.SetSearchAfter([]string{wantN[k]})
						hi := k + 1 + size
						if hi > len(wantN) {
							hi = len(wantN)
						}
						want = wantN[k+1 : hi]
					}
					res, err := SearchWatchdog(nidx, req)
					if err != nil {
						t.Fatalf("nested search %s paging: %v\n%s", canonJSON(nq), err, desc())
					}
					if got := hitIDs(res); strings.Join(got, ",") != strings.Join(want, ",") || int(res.Total) != len(wantN) {
						t.Fatalf("nested mapping, query %s, search_before=%v from parent %s size %d: hits %v Total %d, want %v Total %d (all matching parents %v)\n%s", canonJSON(nq), before, wantN[k], size, got, res.Total, want, len(wantN), wantN, desc())
					}
				}
			}
			separates := strings.Join(wantN, ",") != strings.Join(wantF, ",")
			cl := []string{"shape:" + nq.Shape, "engine:" + cfg.Engine}
			for _, l := range nq.Inner {
				if strings.HasPrefix(l.Field, "A.sub.") {
					cl = append(cl, "two-level")
					break
				}
			}
			if separates {
				cl = append(cl, "nested!=flat")
			}
			if paged {
				cl = append(cl, "search-after/before-over-parents")
			}
			if c20TypeMapped {
				cl = append(cl, "nested-arrays-in-a-type-mapping")
			}
			if mergeWindows > 0 {
				cl = append(cl, "merge-introduced-between-batch-preparation-and-introduction")
			}
			canon := map[string]interface{}{"cfg": cfg, "hist": hist, "q": nq}
			smp := map[string]interface{}{"cfg": cfg, "query": nq, "parents": parents, "nested_hits": nh, "flat_hits": fh}
			ev.Case(separates && touched, canon, smp, cl...)
		}
	})
}

// TestC20KnownBoolean: deterministic reproducer of the open finding (boolean must-not /
// should clauses across nesting levels).
func TestC20KnownBoolean(t *testing.T) {
	idx, err := Config{Engine: EngScorchMem}.Create("", c20Mapping(true))
	if err != nil {
		t.Fatalf("harness: %v", err)
	}
	defer idx.Close()
	d := nDoc{Title: "p", Tag: "p", A: []nA{{X: "p", Y: "q"}}, B: []nB{{Z: "q"}}}
	if err := idx.Index("d0", d.toBleve()); err != nil {
		t.Fatalf("harness: %v", err)
	}
	q := nQuery{Inner: []nLeaf{{"A.x", "p"}, {"A.y", "q"}}, Shape: "bool-must-not", Other: &nLeaf{"B.z", "q"}}
	hits, _, err := runNQuery(idx, q.bleve())
	if err != nil {
		t.Fatalf("harness: %v", err)
	}
	if len(hits) == 0 {
		return // excluded as the model says: the defect is gone
	}
	if k, open := KnownOpen("C20", c20KnownBoolean); open {
		ReportKnown(k)
		return
	}
	t.Fatalf("must[A.x=p AND A.y=q] must_not[B.z=q] returned %v although the parent has an element of B with z=q", hits)
}
