package harness

import (
	"fmt"
	"os"
)

// childMain is entered when the test binary is re-executed with VERIF_CHILD set.
func childMain(mode string) int {
	fn := childModes[mode]
	if fn == nil {
		fmt.Fprintln(os.Stderr, "harness: unknown child mode", mode)
		return 3
	}
	return fn()
}

var childModes = map[string]func() int{}
