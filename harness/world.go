package harness

// The small world shared by most checks: a handful of document ids, a tiny
// vocabulary with prefix chains and edit-distance-1 neighbours, a fixed static
// mapping, and a last-write-wins document model.  Everything random is drawn
// from rapid generators so that failures shrink and replay.

import (
	"fmt"
	"math"
	"sort"
	"strconv"
	"strings"
	"time"

	"github.com/blevesearch/bleve/v2"
	"github.com/blevesearch/bleve/v2/mapping"
	"pgregory.net/rapid"
)

var Vocab = []string{"a", "ab", "abc", "abd", "b", "ba", "cab", "x"}

var DocIDs = []string{"d0", "d1", "d2", "d3", "d4", "d5", "d6", "d7"}

var InternalKeys = []string{"ik0", "ik1", "ik2"}

// NumPool: boundary-heavy numeric values (exactly representable, no NaN, no -0).
var NumPool = []float64{
	0, 1, -1, 2, -2, 0.5, -0.5, 15, 16, 17, 255, 256, 257, -16, -17,
	1e9, -1e9, math.MaxFloat64, -math.MaxFloat64, math.SmallestNonzeroFloat64,
	-math.SmallestNonzeroFloat64, math.Inf(1), math.Inf(-1), 3, 4, 5,
}

// small numeric pool used where docs and ranges must collide often
var SmallNums = []float64{-2, -1, 0, 0.5, 1, 2, 3, 15, 16, 17}

var baseTime = time.Date(2020, 1, 2, 3, 4, 5, 0, time.UTC)

// DatePool: nanosecond neighbours around a base plus far values.
var DatePool = []time.Time{
	baseTime, baseTime.Add(1), baseTime.Add(-1), baseTime.Add(time.Second),
	baseTime.Add(-time.Second), baseTime.Add(24 * time.Hour), baseTime.Add(-24 * time.Hour),
	time.Date(1970, 1, 1, 0, 0, 0, 0, time.UTC), time.Date(1970, 1, 1, 0, 0, 0, 1, time.UTC),
	time.Date(1969, 12, 31, 23, 59, 59, 999999999, time.UTC),
	time.Date(2200, 6, 1, 0, 0, 0, 0, time.UTC), time.Date(1700, 6, 1, 0, 0, 0, 0, time.UTC),
}

// Field is the value of one document field: a scalar or an array of scalars.
type Field struct {
	IsArray bool      `json:"arr,omitempty"`
	S       []string  `json:"s,omitempty"` // text / keyword
	N       []float64 `json:"-"`
	NS      []string  `json:"n,omitempty"` // numbers rendered (json cannot carry Inf)
	D       []int64   `json:"d,omitempty"` // unix nanos
	B       []bool    `json:"b,omitempty"`
}

// Doc maps field name (t,k,n,d,b) to its value; absent key = field absent.
type Doc map[string]*Field

type State struct {
	Docs     map[string]Doc
	Internal map[string]string
}

func NewState() *State { return &State{Docs: map[string]Doc{}, Internal: map[string]string{}} }

func (s *State) Clone() *State {
	n := NewState()
	for k, v := range s.Docs {
		n.Docs[k] = v
	}
	for k, v := range s.Internal {
		n.Internal[k] = v
	}
	return n
}

type OpKind int

const (
	OpIndex OpKind = iota
	OpDelete
	OpSetInternal
	OpDeleteInternal
)

type Op struct {
	Kind OpKind `json:"k"`
	ID   string `json:"id"`
	Doc  Doc    `json:"doc,omitempty"`
	Val  string `json:"val,omitempty"`
}

func (o Op) String() string {
	switch o.Kind {
	case OpIndex:
		return fmt.Sprintf("index(%s,%s)", o.ID, o.Doc.String())
	case OpDelete:
		return fmt.Sprintf("delete(%s)", o.ID)
	case OpSetInternal:
		return fmt.Sprintf("setInternal(%s,%q)", o.ID, o.Val)
	default:
		return fmt.Sprintf("deleteInternal(%s)", o.ID)
	}
}

func (d Doc) String() string {
	keys := make([]string, 0, len(d))
	for k := range d {
		keys = append(keys, k)
	}
	sort.Strings(keys)
	var sb strings.Builder
	sb.WriteString("{")
	for i, k := range keys {
		if i > 0 {
			sb.WriteString(" ")
		}
		f := d[k]
		sb.WriteString(k + ":")
		if f.IsArray {
			sb.WriteString("[")
		}
		switch {
		case f.S != nil:
			sb.WriteString(strings.Join(quoteAll(f.S), ","))
		case f.N != nil:
			for j, n := range f.N {
				if j > 0 {
					sb.WriteString(",")
				}
				sb.WriteString(strconv.FormatFloat(n, 'g', -1, 64))
			}
		case f.D != nil:
			for j, n := range f.D {
				if j > 0 {
					sb.WriteString(",")
				}
				sb.WriteString(time.Unix(0, n).UTC().Format(time.RFC3339Nano))
			}
		case f.B != nil:
			sb.WriteString(fmt.Sprint(f.B))
		}
		if f.IsArray {
			sb.WriteString("]")
		}
	}
	sb.WriteString("}")
	return sb.String()
}

func quoteAll(s []string) []string {
	r := make([]string, len(s))
	for i, x := range s {
		r[i] = strconv.Quote(x)
	}
	return r
}

// Apply applies one batch (ops in order, last per id wins) to the model.
func (s *State) Apply(ops []Op) {
	for _, o := range ops {
		switch o.Kind {
		case OpIndex:
			s.Docs[o.ID] = o.Doc
		case OpDelete:
			delete(s.Docs, o.ID)
		case OpSetInternal:
			s.Internal[o.ID] = o.Val
		case OpDeleteInternal:
			delete(s.Internal, o.ID)
		}
	}
}

func (s *State) LiveIDs() []string {
	ids := make([]string, 0, len(s.Docs))
	for id := range s.Docs {
		ids = append(ids, id)
	}
	sort.Strings(ids)
	return ids
}

// ToBleve converts a model doc to the value handed to Index().
func (d Doc) ToBleve() map[string]interface{} {
	m := map[string]interface{}{}
	for name, f := range d {
		var vals []interface{}
		switch {
		case f.S != nil:
			for _, s := range f.S {
				vals = append(vals, s)
			}
		case f.N != nil:
			for _, n := range f.N {
				vals = append(vals, n)
			}
		case f.D != nil:
			for _, n := range f.D {
				vals = append(vals, time.Unix(0, n).UTC().Format(time.RFC3339Nano))
			}
		case f.B != nil:
			for _, b := range f.B {
				vals = append(vals, b)
			}
		}
		if f.IsArray {
			m[name] = vals
		} else if len(vals) > 0 {
			m[name] = vals[0]
		}
	}
	return m
}

// Tokens returns, for a text/keyword field, the token lists per array element.
// Analysis of the generated values is strings.Fields for "t" (simple analyzer
// on lower-case ASCII words) and identity for "k" (keyword analyzer).
func (d Doc) Tokens(field string) [][]string {
	f := d[field]
	if f == nil || f.S == nil {
		return nil
	}
	var out [][]string
	for _, s := range f.S {
		if field == "k" || strings.HasPrefix(field, "k") {
			out = append(out, []string{s})
		} else {
			out = append(out, strings.Fields(s))
		}
	}
	return out
}

func (d Doc) AllTokens(field string) []string {
	var out []string
	for _, e := range d.Tokens(field) {
		out = append(out, e...)
	}
	return out
}

// ---------------------------------------------------------------- mapping

// WorldMapping is the static mapping of the small world.
// worldDocValues: whether the world mapping persists doc values.  Without them scorch answers
// sorts and facets from a per-segment cache it builds by un-inverting the term dictionary.
var worldDocValues = true

func WorldMapping() *mapping.IndexMappingImpl {
	m := bleve.NewIndexMapping()
	dm := bleve.NewDocumentStaticMapping()
	mk := func(fm *mapping.FieldMapping) *mapping.FieldMapping {
		fm.Store = true
		fm.Index = true
		fm.IncludeTermVectors = true
		fm.IncludeInAll = false
		fm.DocValues = worldDocValues
		return fm
	}
	t := mk(bleve.NewTextFieldMapping())
	t.Analyzer = "simple"
	dm.AddFieldMappingsAt("t", t)
	k := mk(bleve.NewTextFieldMapping())
	k.Analyzer = "keyword"
	// no term vectors on k and b: postings without locations take other code paths
	// (1-hit encoded postings lists, the unadorned conjunction/disjunction optimisations)
	k.IncludeTermVectors = false
	dm.AddFieldMappingsAt("k", k)
	dm.AddFieldMappingsAt("n", mk(bleve.NewNumericFieldMapping()))
	dm.AddFieldMappingsAt("d", mk(bleve.NewDateTimeFieldMapping()))
	bf := mk(bleve.NewBooleanFieldMapping())
	bf.IncludeTermVectors = false
	dm.AddFieldMappingsAt("b", bf)
	m.DefaultMapping = dm
	m.DefaultAnalyzer = "simple"
	return m
}

// ---------------------------------------------------------------- generators

func genWords(t *rapid.T, label string, min, max int) string {
	n := rapid.IntRange(min, max).Draw(t, label+".n")
	w := make([]string, n)
	for i := range w {
		w[i] = rapid.SampledFrom(Vocab).Draw(t, label+".w")
	}
	return strings.Join(w, " ")
}

type DocGenOpts struct {
	Nums  []float64
	Dates []time.Time
	// KWords: values of the keyword field k (default Vocab)
	KWords []string
}

// NumberLikeWords: keyword values that could be mistaken for prefix-coded numbers or for
// other typed encodings (first byte in 0x20..0x5F and a length of 6-11 characters), next to
// ordinary words
var NumberLikeWords = []string{"20240115", "10000000", "8675309", "ABC123", "a", "ab", "b", "x", "19991231", "7654321", "BCD234", "1"}

func GenDoc(t *rapid.T, label string) Doc { return GenDocOpts(t, label, DocGenOpts{}) }

func GenDocOpts(t *rapid.T, label string, o DocGenOpts) Doc {
	if o.Nums == nil {
		o.Nums = NumPool
	}
	if o.Dates == nil {
		o.Dates = DatePool
	}
	d := Doc{}
	arity := func(name string) (bool, int) {
		c := rapid.IntRange(0, 9).Draw(t, label+"."+name+".shape")
		switch {
		case c < 2:
			return false, 0 // absent
		case c < 7:
			return false, 1
		default:
			return true, rapid.IntRange(1, 3).Draw(t, label+"."+name+".len")
		}
	}
	if arr, n := arity("t"); n > 0 {
		f := &Field{IsArray: arr}
		for i := 0; i < n; i++ {
			f.S = append(f.S, genWords(t, label+".t", 0, 4))
		}
		d["t"] = f
	}
	if arr, n := arity("k"); n > 0 {
		f := &Field{IsArray: arr}
		for i := 0; i < n; i++ {
			kw := Vocab
			if o.KWords != nil {
				kw = o.KWords
			}
			f.S = append(f.S, rapid.SampledFrom(kw).Draw(t, label+".k"))
		}
		d["k"] = f
	}
	if arr, n := arity("n"); n > 0 {
		f := &Field{IsArray: arr}
		for i := 0; i < n; i++ {
			v := rapid.SampledFrom(o.Nums).Draw(t, label+".n")
			f.N = append(f.N, v)
			f.NS = append(f.NS, strconv.FormatFloat(v, 'g', -1, 64))
		}
		d["n"] = f
	}
	if arr, n := arity("d"); n > 0 {
		f := &Field{IsArray: arr}
		for i := 0; i < n; i++ {
			f.D = append(f.D, rapid.SampledFrom(o.Dates).Draw(t, label+".d").UnixNano())
		}
		d["d"] = f
	}
	if arr, n := arity("b"); n > 0 {
		f := &Field{IsArray: arr}
		for i := 0; i < n; i++ {
			f.B = append(f.B, rapid.Bool().Draw(t, label+".b"))
		}
		d["b"] = f
	}
	return d
}

// GenBatch draws 0..maxOps operations over the shared id / internal key space.
func GenBatch(t *rapid.T, label string, maxOps int, o DocGenOpts) []Op {
	n := rapid.IntRange(0, maxOps).Draw(t, label+".nops")
	ops := make([]Op, 0, n)
	for i := 0; i < n; i++ {
		ops = append(ops, GenOp(t, label, o))
	}
	return ops
}

func GenOp(t *rapid.T, label string, o DocGenOpts) Op {
	c := rapid.IntRange(0, 9).Draw(t, label+".kind")
	switch {
	case c < 5:
		return Op{Kind: OpIndex, ID: rapid.SampledFrom(DocIDs).Draw(t, label+".id"), Doc: GenDocOpts(t, label+".doc", o)}
	case c < 8:
		return Op{Kind: OpDelete, ID: rapid.SampledFrom(DocIDs).Draw(t, label+".id")}
	case c < 9:
		return Op{Kind: OpSetInternal, ID: rapid.SampledFrom(InternalKeys).Draw(t, label+".ikey"),
			Val: rapid.SampledFrom([]string{"v0", "v1", "v2", "\x00\xff"}).Draw(t, label+".ival")}
	default:
		return Op{Kind: OpDeleteInternal, ID: rapid.SampledFrom(InternalKeys).Draw(t, label+".ikey")}
	}
}

// ApplyBatch sends ops as ONE bleve batch.
func ApplyBatch(idx bleve.Index, ops []Op) error {
	b := idx.NewBatch()
	for _, o := range ops {
		switch o.Kind {
		case OpIndex:
			if err := b.Index(o.ID, o.Doc.ToBleve()); err != nil {
				return err
			}
		case OpDelete:
			b.Delete(o.ID)
		case OpSetInternal:
			b.SetInternal([]byte(o.ID), []byte(o.Val))
		case OpDeleteInternal:
			b.DeleteInternal([]byte(o.ID))
		}
	}
	return idx.Batch(b)
}

// ApplySingle sends one op through the non-batch API.
func ApplySingle(idx bleve.Index, o Op) error {
	switch o.Kind {
	case OpIndex:
		return idx.Index(o.ID, o.Doc.ToBleve())
	case OpDelete:
		return idx.Delete(o.ID)
	case OpSetInternal:
		return idx.SetInternal([]byte(o.ID), []byte(o.Val))
	default:
		return idx.DeleteInternal([]byte(o.ID))
	}
}
