//go:build verif

package harness

import (
	"fmt"
	"testing"
	"time"

	"pgregory.net/rapid"
)

// TestC01Scheduled: the linear-history check on scorch disk with unsafe batches while the
// persister and the merger wait inside their windows (after segment files, inside the in-memory
// merge, before an introduction, after the bolt commit, after a merged file is written) for the
// writer's next call, so that batches are introduced in the middle of persists and merges.
func TestC01Scheduled(t *testing.T) {
	ev := Ev("C01")
	checkPropN(t, "C01", 48, func(t *rapid.T) {
		cfg := genC03Config(t)
		cfg.UnsafeBatch = true
		steps := genC01Steps(t, cfg, 16)
		pts := rapid.SliceOfNDistinct(rapid.SampledFrom(RendezvousPoints), 1, len(RendezvousPoints), rapid.ID[string]).Draw(t, "rendezvous")
		rv := NewRendezvous(pts, 8*time.Millisecond)
		InstallHook(HookPlan{Mode: "count"})
		SetOnPoint(rv.OnPoint)
		c01AfterWrite = rv.Signal
		defer func() { c01AfterWrite = nil; SetOnPoint(nil); ClearHook() }()
		nt, classes := c01Classify(steps)
		c01Run(t, cfg, steps, true)
		_, met := rv.Stats()
		counts := HookCounts()
		classes = append(classes, "scheduled", "engine:"+cfg.Engine)
		if met > 0 {
			classes = append(classes, "batch-introduced-inside-a-background-window")
		}
		if counts["intro.merge.afterSwap"] > 0 {
			classes = append(classes, "merge-introductions")
		}
		canon := map[string]interface{}{"A": cfg, "steps": steps, "rendezvous": pts}
		smp := map[string]interface{}{"A": cfg, "steps": steps, "background_waits_for_next_write_at": pts, "windows_met_by_a_write": met,
			"introductions": fmt.Sprintf("segment=%d persist=%d merge=%d", counts["intro.segment.afterSwap"], counts["intro.persist.afterSwap"], counts["intro.merge.afterSwap"])}
		ev.Case(nt && met > 0, canon, smp, classes...)
	})
}
