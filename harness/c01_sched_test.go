//go:build verif

package harness

import (
	"context"
	"fmt"
	"sync"
	"testing"
	"time"

	"github.com/blevesearch/bleve/v2/index/scorch/mergeplan"
	"pgregory.net/rapid"
)

// TestC01Scheduled: the linear-history check on scorch disk with unsafe batches while the
// persister and the merger wait inside their windows (after segment files, inside the in-memory
// merge, before an introduction, after the bolt commit, after a merged file is written) for the
// writer's next call, so that batches are introduced in the middle of persists and merges.
func TestC01Scheduled(t *testing.T) {
	ev := Ev("C01")
	checkPropN(t, "C01", 48, func(t *rapid.T) {
		cfg := genC03Config(t)
		cfg.UnsafeBatch = true
		steps := genC01Steps(t, cfg, 16)
		pts := rapid.SliceOfNDistinct(rapid.SampledFrom(RendezvousPoints), 1, len(RendezvousPoints), rapid.ID[string]).Draw(t, "rendezvous")
		rv := NewRendezvous(pts, 8*time.Millisecond)
		InstallHook(HookPlan{Mode: "count"})
		SetOnPoint(rv.OnPoint)
		c01AfterWrite = rv.Signal
		defer func() { c01AfterWrite = nil; SetOnPoint(nil); ClearHook() }()
		nt, classes := c01Classify(steps)
		c01Run(t, cfg, steps, true)
		_, met := rv.Stats()
		counts := HookCounts()
		classes = append(classes, "scheduled", "engine:"+cfg.Engine)
		if met > 0 {
			classes = append(classes, "batch-introduced-inside-a-background-window")
		}
		if counts["intro.merge.afterSwap"] > 0 {
			classes = append(classes, "merge-introductions")
		}
		canon := map[string]interface{}{"A": cfg, "steps": steps, "rendezvous": pts}
		smp := map[string]interface{}{"A": cfg, "steps": steps, "background_waits_for_next_write_at": pts, "windows_met_by_a_write": met,
			"introductions": fmt.Sprintf("segment=%d persist=%d merge=%d", counts["intro.segment.afterSwap"], counts["intro.persist.afterSwap"], counts["intro.merge.afterSwap"])}
		ev.Case(nt && met > 0, canon, smp, classes...)
	})
}

// windowGate blocks the first goroutine that reaches a hook point while armed.
type windowGate struct {
	mu      sync.Mutex
	point   string
	armed   bool
	reached chan struct{}
	release chan struct{}
}

func (w *windowGate) arm(point string) {
	w.mu.Lock()
	w.point, w.armed = point, true
	w.reached, w.release = make(chan struct{}), make(chan struct{})
	w.mu.Unlock()
}

func (w *windowGate) onPoint(p string) {
	w.mu.Lock()
	if !w.armed || p != w.point {
		w.mu.Unlock()
		return
	}
	w.armed = false
	reached, release := w.reached, w.release
	w.mu.Unlock()
	close(reached)
	<-release
}

func (w *windowGate) open() {
	w.mu.Lock()
	w.armed = false
	if w.release != nil {
		select {
		case <-w.release:
		default:
			close(w.release)
		}
	}
	w.mu.Unlock()
}

// TestC01MergeWindow: writes that land inside a merge.  A walk of 1-3 windows on scorch disk
// (unsafe batches): for an in-memory-merge window the persister is parked at the end of a
// round, 2-4 batches pile up in memory, one persister round starts and is stopped after the
// merged segments are built (persist.memMerge.afterFiles); for a file-merge window 2-5
// persisted segments are force-merged with a plan of several tasks and the merger is stopped
// before it hands its result to the introducer (merge.beforeIntroduce).  Inside the window 1-2
// generated batches update and delete documents of the segments being merged; the state is
// compared with the model after every batch, after the merge is introduced, and after a reopen.
func TestC01MergeWindow(t *testing.T) {
	ev := Ev("C01")
	checkPropN(t, "C01", 40, func(t *rapid.T) {
		cfg := Config{Engine: EngScorchDisk, UnsafeBatch: true, MaxSegPerTier: 100, FloorSegSize: 1, SegPerMerge: 10}
		cfg.Workers = rapid.SampledFrom([]int{1, 2, 4}).Draw(t, "workers")
		cfg.MaxMemMerge = rapid.SampledFrom([]int{1, 1, 4096}).Draw(t, "maxmem")
		cfg.KeepSnapshots = rapid.SampledFrom([]int{1, 3}).Draw(t, "keep")
		dir := TempDir(t)
		g := newPersisterGate("persist.afterNotifyWaiters")
		w := &windowGate{}
		InstallHook(HookPlan{Mode: "count"})
		SetOnPoint(func(p string) { w.onPoint(p); g.onPoint(p) })
		idx, err := cfg.Create(dir, WorldMapping())
		if err != nil {
			t.Fatalf("create: %v", err)
		}
		closed := false
		defer func() {
			w.open()
			g.release()
			SetOnPoint(nil)
			ClearHook()
			if !closed {
				idx.Close()
			}
		}()
		model := NewState()
		var hist []string
		check := func(when string) {
			o, err := Observe(idx, DocIDs, InternalKeys)
			if err != nil {
				t.Fatalf("%s: %v (config %s, history %v)", when, err, cfg, hist)
			}
			if d := o.DiffModel(model, DocIDs, InternalKeys); d != "" {
				t.Fatalf("%s: %s (config %s, history %v)", when, d, cfg, hist)
			}
		}
		batch := func(label string, min int) {
			ops := genDataBatch(t, label, 5, CorpusOpts{})
			for len(ops) < min {
				ops = append(ops, genDataBatch(t, label+"+", 3, CorpusOpts{})...)
			}
			if err := ApplyBatch(idx, ops); err != nil {
				t.Fatalf("batch: %v", err)
			}
			model.Apply(ops)
			hist = append(hist, fmt.Sprintf("%s%v", label, opsBrief(ops)))
			check("after batch " + label)
		}
		settle := func() {
			g.release()
			if err := WaitPersisted(idx, 30*time.Second); err != nil {
				t.Fatalf("harness: %v", err)
			}
		}
		insideWindows, multi := 0, 0
		nw := rapid.IntRange(1, 3).Draw(t, "windows")
		for wi := 0; wi < nw; wi++ {
			if rapid.Bool().Draw(t, "memwindow") {
				// park the persister at the end of a round
				settle()
				g.hold()
				batch(fmt.Sprintf("w%d.warm", wi), 1)
				for dl, n := time.Now().Add(2*time.Second), g.parkedCount(); g.parkedCount() == n && time.Now().Before(dl); {
					time.Sleep(200 * time.Microsecond)
				}
				k := rapid.IntRange(2, 4).Draw(t, "memsegs")
				for i := 0; i < k; i++ {
					batch(fmt.Sprintf("w%d.mem%d", wi, i), 2)
				}
				w.arm("persist.memMerge.afterFiles")
				before := HookCounts()["intro.merge.afterSwap"]
				hist = append(hist, "persister-round-starts")
				go g.round(5 * time.Second)
				select {
				case <-w.reached:
					insideWindows++
					hist = append(hist, "in-memory-merge-built")
					for i, n := 0, rapid.IntRange(1, 2).Draw(t, "inside"); i < n; i++ {
						batch(fmt.Sprintf("w%d.inside%d", wi, i), 2)
					}
					w.open()
					for dl := time.Now().Add(5 * time.Second); HookCounts()["intro.merge.afterSwap"] == before && time.Now().Before(dl); {
						time.Sleep(200 * time.Microsecond)
					}
					hist = append(hist, "in-memory-merge-introduced")
					check("after the in-memory merge was introduced")
				case <-time.After(500 * time.Millisecond):
					w.open() // this configuration did not merge in memory
					hist = append(hist, "no-in-memory-merge")
				}
				settle()
				check("after settling")
			} else {
				k := rapid.IntRange(2, 5).Draw(t, "filesegs")
				for i := 0; i < k; i++ {
					batch(fmt.Sprintf("w%d.file%d", wi, i), 2)
					settle()
				}
				w.arm("merge.beforeIntroduce")
				done := make(chan error, 1)
				perTask := rapid.SampledFrom([]int{2, 2, 3, 10}).Draw(t, "perTask")
				go func() {
					ctx, cancel := context.WithTimeout(context.Background(), 30*time.Second)
					defer cancel()
					done <- ScorchOf(idx).ForceMerge(ctx, &mergeplan.MergePlanOptions{MaxSegmentsPerTier: 1, MaxSegmentSize: 1 << 30, MaxSegmentFileSize: 1 << 40,
						TierGrowth: 1.0, SegmentsPerMergeTask: perTask, FloorSegmentSize: 1 << 30, FloorSegmentFileSize: 1 << 40, ReclaimDeletesWeight: 2.0})
				}()
				hist = append(hist, fmt.Sprintf("forced-merge-starts(%d segments per task)", perTask))
				select {
				case <-w.reached:
					insideWindows++
					if perTask < k+1 {
						multi++
					}
					hist = append(hist, "merged-files-written")
					for i, n := 0, rapid.IntRange(1, 2).Draw(t, "inside"); i < n; i++ {
						batch(fmt.Sprintf("w%d.inside%d", wi, i), 2)
					}
					w.open()
				case err := <-done:
					done <- err
					hist = append(hist, "nothing-to-merge")
				case <-time.After(10 * time.Second):
					w.open()
				}
				w.open()
				select {
				case err := <-done:
					if err != nil {
						t.Fatalf("ForceMerge: %v (config %s, history %v)", err, cfg, hist)
					}
				case <-time.After(40 * time.Second):
					t.Fatalf("ForceMerge did not return (config %s, history %v)", cfg, hist)
				}
				hist = append(hist, "forced-merge-introduced")
				check("after the forced merge was introduced")
				settle()
				check("after settling")
			}
		}
		settle()
		if err := idx.Close(); err != nil {
			t.Fatalf("close: %v", err)
		}
		closed = true
		idx, err = cfg.Reopen(dir)
		if err != nil {
			t.Fatalf("reopen: %v (history %v)", err, hist)
		}
		closed = false
		hist = append(hist, "reopen")
		check("after reopen")
		cl := []string{"merge-window", "engine:" + cfg.Engine}
		if multi > 0 {
			cl = append(cl, "merge-window-multi-task-plan")
		}
		if insideWindows > 0 {
			cl = append(cl, "batch-introduced-inside-a-background-window")
		}
		ev.Case(insideWindows > 0, map[string]interface{}{"A": cfg, "hist": hist}, map[string]interface{}{"A": cfg, "history": hist, "writes_inside_merge_windows": insideWindows}, cl...)
	})
}

func opsBrief(ops []Op) []string {
	var out []string
	for _, o := range ops {
		switch o.Kind {
		case OpDelete:
			out = append(out, "-"+o.ID)
		case OpIndex:
			out = append(out, "+"+o.ID)
		default:
			out = append(out, "i:"+o.ID)
		}
	}
	return out
}
