package harness

import (
	"encoding/json"
	"fmt"
	"sort"
	"strings"
	"testing"

	"github.com/blevesearch/bleve/v2"
	"github.com/blevesearch/bleve/v2/document"
	"github.com/blevesearch/bleve/v2/mapping"
	index "github.com/blevesearch/bleve_index_api"
	"pgregory.net/rapid"
)

// C16 — a mapping survives its JSON form: reopened indexes map documents identically.

var c16BuiltinAnalyzers = []string{"standard", "keyword", "simple", "en", "web", "de", "cjk"}
var c16BuiltinDateParsers = []string{"dateTimeOptional", "unix_sec", "unix_milli"}
var c16PropNames = []string{"a", "b", "c", "obj", "tags"}

type c16Stats struct {
	custom, nonDefaultOpt, subDoc, nested, emptyLists, rejected int
}

func genCustomAnalysis(t *rapid.T, m *mapping.IndexMappingImpl, st *c16Stats) (analyzers, dateParsers []string) {
	analyzers = append(analyzers, c16BuiltinAnalyzers...)
	dateParsers = append(dateParsers, c16BuiltinDateParsers...)
	must := func(err error, what string) {
		if err != nil {
			t.Fatalf("harness: defining %s: %v", what, err)
		}
	}
	var charFilters, tokenizers, tokenMaps, tokenFilters []string
	for i, n := 0, rapid.IntRange(0, 2).Draw(t, "ncharfilters"); i < n; i++ {
		name := fmt.Sprintf("cf%d", i)
		must(m.AddCustomCharFilter(name, map[string]interface{}{"type": "regexp",
			"regexp": rapid.SampledFrom([]string{"a+", "[0-9]", "x"}).Draw(t, "cf.re"), "replace": rapid.SampledFrom([]string{"", "b", "zz"}).Draw(t, "cf.repl")}), name)
		charFilters = append(charFilters, name)
		st.custom++
	}
	for i, n := 0, rapid.IntRange(0, 2).Draw(t, "ntokenizers"); i < n; i++ {
		name := fmt.Sprintf("tk%d", i)
		if rapid.Bool().Draw(t, "tk.regexp") {
			must(m.AddCustomTokenizer(name, map[string]interface{}{"type": "regexp", "regexp": rapid.SampledFrom([]string{"[a-z]+", "\\w+", "[^ ]+"}).Draw(t, "tk.re")}), name)
		} else {
			must(m.AddCustomTokenizer(name, map[string]interface{}{"type": "exception", "exceptions": []interface{}{"[a-z]+@[a-z]+", "x-y"},
				"tokenizer": rapid.SampledFrom([]string{"unicode", "whitespace"}).Draw(t, "tk.inner")}), name)
		}
		tokenizers = append(tokenizers, name)
		st.custom++
	}
	for i, n := 0, rapid.IntRange(0, 2).Draw(t, "ntokenmaps"); i < n; i++ {
		name := fmt.Sprintf("tm%d", i)
		toks := []interface{}{}
		for j, k := 0, rapid.IntRange(0, 3).Draw(t, "tm.n"); j < k; j++ {
			toks = append(toks, rapid.SampledFrom([]string{"a", "the", "ab", "x"}).Draw(t, "tm.tok"))
		}
		must(m.AddCustomTokenMap(name, map[string]interface{}{"type": "custom", "tokens": toks}), name)
		tokenMaps = append(tokenMaps, name)
		st.custom++
	}
	for i, n := 0, rapid.IntRange(0, 3).Draw(t, "ntokenfilters"); i < n; i++ {
		name := fmt.Sprintf("tf%d", i)
		kinds := []string{"length", "ngram", "edge_ngram", "truncate_token", "shingle"}
		if len(tokenMaps) > 0 {
			kinds = append(kinds, "stop_tokens")
		}
		var cfg map[string]interface{}
		switch kind := rapid.SampledFrom(kinds).Draw(t, "tf.kind"); kind {
		case "length":
			mn := rapid.IntRange(0, 3).Draw(t, "tf.min")
			cfg = map[string]interface{}{"type": kind, "min": float64(mn), "max": float64(mn + 1 + rapid.IntRange(0, 5).Draw(t, "tf.span"))}
		case "ngram", "edge_ngram":
			mn := rapid.IntRange(1, 3).Draw(t, "tf.min")
			cfg = map[string]interface{}{"type": kind, "min": float64(mn), "max": float64(mn + rapid.IntRange(0, 2).Draw(t, "tf.span"))}
			if kind == "edge_ngram" {
				cfg["back"] = rapid.Bool().Draw(t, "tf.back")
			}
		case "truncate_token":
			cfg = map[string]interface{}{"type": kind, "length": float64(rapid.IntRange(1, 5).Draw(t, "tf.len"))}
		case "shingle":
			cfg = map[string]interface{}{"type": kind, "min": 2.0, "max": float64(rapid.IntRange(2, 3).Draw(t, "tf.max")), "output_original": rapid.Bool().Draw(t, "tf.orig")}
		default:
			cfg = map[string]interface{}{"type": "stop_tokens", "stop_token_map": rapid.SampledFrom(tokenMaps).Draw(t, "tf.map")}
		}
		must(m.AddCustomTokenFilter(name, cfg), name)
		tokenFilters = append(tokenFilters, name)
		st.custom++
	}
	for i, n := 0, rapid.IntRange(0, 2).Draw(t, "nanalyzers"); i < n; i++ {
		name := fmt.Sprintf("an%d", i)
		cfs := []interface{}{}
		if len(charFilters) > 0 && rapid.Bool().Draw(t, "an.cf") {
			cfs = append(cfs, rapid.SampledFrom(charFilters).Draw(t, "an.cfname"))
		}
		if rapid.IntRange(0, 3).Draw(t, "an.html") == 0 {
			cfs = append(cfs, "html")
		}
		tk := rapid.SampledFrom(append([]string{"unicode", "whitespace", "single", "letter"}, tokenizers...)).Draw(t, "an.tk")
		tfs := []interface{}{}
		for j, k := 0, rapid.IntRange(0, 2).Draw(t, "an.ntf"); j < k; j++ {
			tfs = append(tfs, rapid.SampledFrom(append([]string{"to_lower", "stop_en", "apostrophe"}, tokenFilters...)).Draw(t, "an.tf"))
		}
		must(m.AddCustomAnalyzer(name, map[string]interface{}{"type": "custom", "char_filters": cfs, "tokenizer": tk, "token_filters": tfs}), name)
		analyzers = append(analyzers, name)
		st.custom++
	}
	for i, n := 0, rapid.IntRange(0, 1).Draw(t, "ndateparsers"); i < n; i++ {
		name := fmt.Sprintf("dp%d", i)
		must(m.AddCustomDateTimeParser(name, map[string]interface{}{"type": "flexiblego", "layouts": []interface{}{"2006-01-02", "02/01/2006 15:04"}}), name)
		dateParsers = append(dateParsers, name)
		st.custom++
	}
	// calls that the mapping rejects (a name defined a second time with another configuration,
	// a configuration that cannot be built): the caller carries on with the mapping, which must
	// still describe - in memory and in its JSON form - exactly what was accepted
	for i, n := 0, rapid.IntRange(0, 2).Draw(t, "nrejected"); i < n; i++ {
		var err error
		what := rapid.SampledFrom([]string{"analyzer-again", "analyzer-broken", "tokenfilter-again", "tokenfilter-broken", "charfilter-again", "tokenizer-again", "tokenmap-again", "dateparser-again"}).Draw(t, "rejected")
		pick := func(names []string) string {
			if len(names) == 0 {
				return ""
			}
			return rapid.SampledFrom(names).Draw(t, "rejected.name")
		}
		switch what {
		case "analyzer-again":
			if name := pick(analyzers[len(c16BuiltinAnalyzers):]); name != "" {
				err = m.AddCustomAnalyzer(name, map[string]interface{}{"type": "custom", "tokenizer": "single", "token_filters": []interface{}{"to_lower"}})
			} else {
				continue
			}
		case "analyzer-broken":
			err = m.AddCustomAnalyzer(fmt.Sprintf("bad%d", i), map[string]interface{}{"type": "custom", "tokenizer": "no-such-tokenizer"})
		case "tokenfilter-again":
			if name := pick(tokenFilters); name != "" {
				err = m.AddCustomTokenFilter(name, map[string]interface{}{"type": "truncate_token", "length": 1.0})
			} else {
				continue
			}
		case "tokenfilter-broken":
			err = m.AddCustomTokenFilter(fmt.Sprintf("badtf%d", i), map[string]interface{}{"type": "stop_tokens", "stop_token_map": "no-such-map"})
		case "charfilter-again":
			if name := pick(charFilters); name != "" {
				err = m.AddCustomCharFilter(name, map[string]interface{}{"type": "regexp", "regexp": "q", "replace": "Q"})
			} else {
				continue
			}
		case "tokenizer-again":
			if name := pick(tokenizers); name != "" {
				err = m.AddCustomTokenizer(name, map[string]interface{}{"type": "regexp", "regexp": "."})
			} else {
				continue
			}
		case "tokenmap-again":
			if name := pick(tokenMaps); name != "" {
				err = m.AddCustomTokenMap(name, map[string]interface{}{"type": "custom", "tokens": []interface{}{"zzz"}})
			} else {
				continue
			}
		default:
			if name := pick(dateParsers[len(c16BuiltinDateParsers):]); name != "" {
				err = m.AddCustomDateTimeParser(name, map[string]interface{}{"type": "flexiblego", "layouts": []interface{}{"2006"}})
			} else {
				continue
			}
		}
		if err == nil {
			t.Fatalf("harness: the mapping accepted %s", what)
		}
		st.rejected++
	}
	return
}

func genFieldMapping(t *rapid.T, analyzers, dateParsers []string, st *c16Stats) *mapping.FieldMapping {
	fm := &mapping.FieldMapping{}
	fm.Type = rapid.SampledFrom([]string{"text", "text", "number", "datetime", "boolean", "geopoint", "IP"}).Draw(t, "fm.type")
	if rapid.IntRange(0, 2).Draw(t, "fm.rename") == 0 {
		fm.Name = rapid.SampledFrom([]string{"alt", "a", "other"}).Draw(t, "fm.name")
	}
	if fm.Type == "text" && rapid.Bool().Draw(t, "fm.hasAnalyzer") {
		fm.Analyzer = rapid.SampledFrom(analyzers).Draw(t, "fm.analyzer")
	}
	if fm.Type == "datetime" && rapid.Bool().Draw(t, "fm.hasDateFormat") {
		fm.DateFormat = rapid.SampledFrom(dateParsers).Draw(t, "fm.dateformat")
	}
	fm.Store = rapid.Bool().Draw(t, "fm.store")
	fm.Index = rapid.Bool().Draw(t, "fm.index")
	fm.IncludeTermVectors = rapid.Bool().Draw(t, "fm.tv")
	fm.IncludeInAll = rapid.Bool().Draw(t, "fm.all")
	fm.DocValues = rapid.Bool().Draw(t, "fm.dv")
	fm.SkipFreqNorm = rapid.Bool().Draw(t, "fm.skipfn")
	if !fm.Store || !fm.Index || fm.SkipFreqNorm || !fm.DocValues {
		st.nonDefaultOpt++
	}
	return fm
}

func genDocMapping(t *rapid.T, depth int, top bool, analyzers, dateParsers []string, st *c16Stats) *mapping.DocumentMapping {
	dm := bleve.NewDocumentMapping()
	dm.Enabled = rapid.IntRange(0, 9).Draw(t, "dm.enabled") != 0
	dm.Dynamic = rapid.Bool().Draw(t, "dm.dynamic")
	if !top && rapid.IntRange(0, 5).Draw(t, "dm.nested") == 0 {
		dm.Nested = true
		st.nested++
	}
	if rapid.IntRange(0, 3).Draw(t, "dm.hasAnalyzer") == 0 {
		dm.DefaultAnalyzer = rapid.SampledFrom(analyzers).Draw(t, "dm.analyzer")
	}
	if depth > 0 {
		for i, n := 0, rapid.IntRange(0, 3).Draw(t, "dm.nprops"); i < n; i++ {
			name := rapid.SampledFrom(c16PropNames).Draw(t, "dm.prop")
			sub := genDocMapping(t, depth-1, false, analyzers, dateParsers, st)
			dm.AddSubDocumentMapping(name, sub)
			st.subDoc++
		}
	}
	if !top {
		for i, n := 0, rapid.IntRange(0, 2).Draw(t, "dm.nfields"); i < n; i++ {
			dm.AddFieldMapping(genFieldMapping(t, analyzers, dateParsers, st))
		}
	}
	// explicitly empty (non-nil) lists and maps, as user JSON with "fields":[] / "properties":{}
	// produces; they vanish from the JSON form (omitempty) and come back as nil
	if len(dm.Fields) == 0 && rapid.IntRange(0, 2).Draw(t, "dm.emptyFields") == 0 {
		dm.Fields = []*mapping.FieldMapping{}
		st.emptyLists++
	}
	if len(dm.Properties) == 0 && rapid.IntRange(0, 3).Draw(t, "dm.emptyProps") == 0 {
		dm.Properties = map[string]*mapping.DocumentMapping{}
		st.emptyLists++
	}
	return dm
}

func genIndexMapping(t *rapid.T) (*mapping.IndexMappingImpl, c16Stats) {
	var st c16Stats
	m := bleve.NewIndexMapping()
	analyzers, dateParsers := genCustomAnalysis(t, m, &st)
	m.DefaultMapping = genDocMapping(t, 2, true, analyzers, dateParsers, &st)
	for i, n := 0, rapid.IntRange(0, 2).Draw(t, "ntypes"); i < n; i++ {
		m.AddDocumentMapping(rapid.SampledFrom([]string{"ta", "tb"}).Draw(t, "typename"), genDocMapping(t, 2, true, analyzers, dateParsers, &st))
	}
	m.TypeField = rapid.SampledFrom([]string{"_type", "kind", ""}).Draw(t, "typefield")
	m.DefaultType = rapid.SampledFrom([]string{"_default", "ta"}).Draw(t, "defaulttype")
	m.DefaultAnalyzer = rapid.SampledFrom(analyzers).Draw(t, "defaultanalyzer")
	m.DefaultDateTimeParser = rapid.SampledFrom(dateParsers).Draw(t, "defaultdateparser")
	m.DefaultField = rapid.SampledFrom([]string{"_all", "a"}).Draw(t, "defaultfield")
	m.StoreDynamic = rapid.Bool().Draw(t, "storedynamic")
	m.IndexDynamic = rapid.Bool().Draw(t, "indexdynamic")
	m.DocValuesDynamic = rapid.Bool().Draw(t, "docvaluesdynamic")
	m.ScoringModel = rapid.SampledFrom([]string{"", "tf-idf", "bm25"}).Draw(t, "scoring")
	return m, st
}

func genC16Value(t *rapid.T, depth int) interface{} {
	switch rapid.IntRange(0, 9).Draw(t, "v.kind") {
	case 0, 1:
		return rapid.SampledFrom([]string{"the quick-brown fox's x-y", "aaa 123 <b>bold</b>", "", "a@b c", "Ünïcode Größe 東京"}).Draw(t, "v.text")
	case 2:
		return rapid.SampledFrom([]string{"2020-01-02T03:04:05Z", "2020-01-02", "02/01/2006 15:04", "1577934245", "not a date"}).Draw(t, "v.date")
	case 3:
		return rapid.SampledFrom([]float64{0, 1.5, -2, 1e9}).Draw(t, "v.num")
	case 4:
		return rapid.Bool().Draw(t, "v.bool")
	case 5:
		return rapid.SampledFrom([]string{"1.2.3.4", "::1", "999.1.1.1"}).Draw(t, "v.ip")
	case 6:
		return rapid.SampledFrom([]interface{}{"12.5,-70.25", map[string]interface{}{"lat": 10.0, "lon": 20.0}, []interface{}{20.0, 10.0}, "9q8yy"}).Draw(t, "v.geo")
	case 7:
		if depth > 0 {
			n := rapid.IntRange(0, 3).Draw(t, "v.arrlen")
			arr := make([]interface{}, n)
			for i := range arr {
				arr[i] = genC16Value(t, depth-1)
			}
			return arr
		}
		return nil
	default:
		if depth > 0 {
			return genC16Doc(t, depth-1)
		}
		return "leaf"
	}
}

func genC16Doc(t *rapid.T, depth int) map[string]interface{} {
	d := map[string]interface{}{}
	for i, n := 0, rapid.IntRange(0, 4).Draw(t, "d.nkeys"); i < n; i++ {
		k := rapid.SampledFrom([]string{"a", "b", "c", "obj", "tags", "unmapped", "_type", "kind"}).Draw(t, "d.key")
		if k == "_type" || k == "kind" {
			d[k] = rapid.SampledFrom([]string{"ta", "tb", "zz"}).Draw(t, "d.type")
		} else {
			d[k] = genC16Value(t, depth)
		}
	}
	return d
}

// renderMapped maps data under m and renders every produced field canonically.
func renderMapped(m mapping.IndexMapping, id string, data interface{}) (out []string, err error) {
	defer func() {
		if p := recover(); p != nil {
			err = fmt.Errorf("panic: %v", p)
		}
	}()
	doc := document.NewDocument(id)
	if err := m.MapDocument(doc, data); err != nil {
		return nil, fmt.Errorf("MapDocument: %w", err)
	}
	var render func(prefix string, d *document.Document)
	render = func(prefix string, d *document.Document) {
		for _, f := range d.Fields {
			f.Analyze()
			var toks []string
			for term, tf := range f.AnalyzedTokenFrequencies() {
				var locs []string
				for _, l := range tf.Locations {
					locs = append(locs, fmt.Sprintf("%d:%d-%d%v", l.Position, l.Start, l.End, l.ArrayPositions))
				}
				toks = append(toks, fmt.Sprintf("%q*%d@%s", term, tf.Frequency(), strings.Join(locs, ",")))
			}
			sort.Strings(toks)
			out = append(out, fmt.Sprintf("%s%s|%T|opts=%d|pos=%v|val=%q|len=%d|toks=%s", prefix, f.Name(), f, f.Options(), f.ArrayPositions(), f.Value(), f.AnalyzedLength(), strings.Join(toks, " ")))
			for _, cf := range d.CompositeFields {
				cf.Compose(f.Name(), f.AnalyzedLength(), f.AnalyzedTokenFrequencies())
			}
		}
		for _, cf := range d.CompositeFields {
			var terms []string
			for term, tf := range cf.AnalyzedTokenFrequencies() {
				terms = append(terms, fmt.Sprintf("%q*%d", term, tf.Frequency()))
			}
			sort.Strings(terms)
			out = append(out, fmt.Sprintf("%scomposite %s|opts=%d|len=%d|%s", prefix, cf.Name(), cf.Options(), cf.AnalyzedLength(), strings.Join(terms, " ")))
		}
		for i, nd := range d.NestedDocuments {
			render(fmt.Sprintf("%snested[%d].", prefix, i), nd)
		}
	}
	render("", doc)
	sort.Strings(out)
	return out, nil
}

var _ index.Field

func TestC16MappingJSON(t *testing.T) {
	ev := Ev("C16")
	ev.SetRule("rapid: mapping trees (0-2 type mappings + default mapping, properties to depth 2, enabled/dynamic/nested flags, default analyzers, 0-2 field mappings per property with name override, type in {text,number,datetime,boolean,geopoint,IP}, analyzer from built-ins and generated custom analyzers, date formats from built-ins and custom flexible parsers, every boolean option), index-level defaults (type field, default type/field/analyzer/date parser, store/index/docvalues_dynamic, scoring model), custom analysis section (char filters, tokenizers, token maps, token filters, analyzers, date parsers) built bottom-up; " +
		"4 JSON-like documents each over mapped and unmapped names, wrong-typed values, _type selectors; " +
		"oracle: Validate()==nil => parse(json(m)) validates, json is a fixpoint, and MapDocument under both yields the same multiset of (name, Go type, options, array positions, value bytes, analysed length, token frequencies with positions/offsets), composite _all contents and nested-document tree; " +
		"non-trivial = mapping uses >=1 custom analysis component, >=1 non-default field option, >=1 sub-document mapping and the document produced >=2 fields")
	ev.Assume("vector and synonym options are not generated (not built in this configuration)")
	checkPropN(t, "C16", 600, func(t *rapid.T) {
		m, st := genIndexMapping(t)
		if err := m.Validate(); err != nil {
			ev.Class("invalid-mapping-skipped", 1)
			return
		}
		j, err := json.Marshal(m)
		if err != nil {
			t.Fatalf("marshal: %v", err)
		}
		var m2 mapping.IndexMappingImpl
		if err := json.Unmarshal(j, &m2); err != nil {
			t.Fatalf("the mapping's own JSON does not parse: %v\n%s", err, j)
		}
		if err := m2.Validate(); err != nil {
			t.Fatalf("the parsed mapping does not validate: %v\n%s", err, j)
		}
		j2, err := json.Marshal(&m2)
		if err != nil {
			t.Fatalf("marshal 2: %v", err)
		}
		if string(j) != string(j2) {
			t.Fatalf("JSON is not a fixpoint:\n first  %s\n second %s", j, j2)
		}
		for di := 0; di < 4; di++ {
			data := genC16Doc(t, 2)
			a, errA := renderMapped(m, "x", data)
			b, errB := renderMapped(&m2, "x", data)
			if (errA == nil) != (errB == nil) {
				t.Fatalf("document %s: original mapping err=%v, parsed mapping err=%v\nmapping %s", canonJSON(data), errA, errB, j)
			}
			if strings.Join(a, "\n") != strings.Join(b, "\n") {
				t.Fatalf("document %s maps differently after the JSON round trip:\n original:\n  %s\n parsed:\n  %s\nmapping %s", canonJSON(data), strings.Join(a, "\n  "), strings.Join(b, "\n  "), j)
			}
			nt := st.custom >= 1 && st.nonDefaultOpt >= 1 && st.subDoc >= 1 && len(a) >= 2
			cl := []string{}
			if st.nested > 0 {
				cl = append(cl, "nested-mapping")
			}
			if st.custom > 0 {
				cl = append(cl, "custom-analysis")
			}
			if st.emptyLists > 0 {
				cl = append(cl, "explicitly-empty-fields-or-properties")
			}
			if st.rejected > 0 {
				cl = append(cl, "rejected-custom-analysis-definitions")
			}
			if errA != nil {
				cl = append(cl, "map-document-error")
			}
			ev.Case(nt, map[string]interface{}{"m": string(j), "doc": data}, map[string]interface{}{"mapping": json.RawMessage(j), "doc": data, "fields": a}, cl...)
		}
	})
}

// TestC16Reopen goes through the real path: create an index with the mapping on disk,
// close, Open, and compare Index.Mapping() and the mapping of new documents.
func TestC16Reopen(t *testing.T) {
	ev := Ev("C16")
	checkPropN(t, "C16", 200, func(t *rapid.T) {
		m, st := genIndexMapping(t)
		if st.nested > 0 || m.Validate() != nil {
			return // nested mappings need zap v17 indexes; covered by the pure round trip above
		}
		eng := rapid.SampledFrom([]string{EngScorchDisk, EngUDBolt}).Draw(t, "engine")
		cfg := Config{Engine: eng}
		dir := TempDir(t)
		idx, err := cfg.Create(dir, m)
		if err != nil {
			t.Fatalf("create: %v", err)
		}
		data := genC16Doc(t, 2)
		if err := idx.Index("before", data); err != nil {
			idx.Close()
			t.Fatalf("index: %v", err)
		}
		beforeDoc, _ := idx.Document("before")
		var before []string
		if beforeDoc != nil {
			before = StoredFieldsOf(beforeDoc)
		}
		j, _ := json.Marshal(m)
		if err := idx.Close(); err != nil {
			t.Fatalf("close: %v", err)
		}
		idx, err = cfg.Reopen(dir)
		if err != nil {
			t.Fatalf("reopen with mapping %s: %v", j, err)
		}
		defer idx.Close()
		j2, _ := json.Marshal(idx.Mapping())
		if string(j) != string(j2) {
			t.Fatalf("mapping after reopen differs:\n created %s\n opened  %s", j, j2)
		}
		if err := idx.Index("after", data); err != nil {
			t.Fatalf("index after reopen: %v", err)
		}
		afterDoc, _ := idx.Document("after")
		var after []string
		if afterDoc != nil {
			after = StoredFieldsOf(afterDoc)
		}
		if strings.Join(before, "\n") != strings.Join(after, "\n") {
			t.Fatalf("the same document stores different fields before and after reopen:\n before %v\n after  %v\n mapping %s\n doc %s", before, after, j, canonJSON(data))
		}
		a, _ := renderMapped(m, "x", data)
		b, _ := renderMapped(idx.Mapping(), "x", data)
		if strings.Join(a, "\n") != strings.Join(b, "\n") {
			t.Fatalf("document maps differently under the reopened index's mapping:\n %v\n %v", a, b)
		}
		ev.Case(st.custom >= 1 && len(a) >= 2, map[string]interface{}{"m": string(j), "doc": data, "eng": eng}, nil, "reopen-path", "engine:"+eng)
	})
}
