package harness

import (
	"bytes"
	"context"
	"encoding/binary"
	"fmt"
	"sort"
	"strconv"
	"strings"
	"testing"
	"time"

	"github.com/blevesearch/bleve/v2"
	"github.com/blevesearch/bleve/v2/numeric"
	"github.com/blevesearch/bleve/v2/search"
	"github.com/blevesearch/bleve/v2/search/collector"
	index "github.com/blevesearch/bleve_index_api"
	"pgregory.net/rapid"
)

// C06 — hits are the requested slice of the fully sorted match list.

// ---------------------------------------------------------------- collector level stubs

type c06Match struct {
	Num   uint64      `json:"num"`
	Ext   string      `json:"id"`
	Score float64     `json:"score"`
	FS    []string    `json:"fs,omitempty"` // string field values
	FN    []float64   `json:"fn,omitempty"` // numeric field values
	terms [][2]string // (field, term) in visit order
}

type c06Searcher struct {
	matches []c06Match
	pos     int
}

func (s *c06Searcher) Next(ctx *search.SearchContext) (*search.DocumentMatch, error) {
	if s.pos >= len(s.matches) {
		return nil, nil
	}
	m := s.matches[s.pos]
	s.pos++
	dm := ctx.DocumentMatchPool.Get()
	id := make([]byte, 8)
	binary.BigEndian.PutUint64(id, m.Num)
	dm.IndexInternalID = id
	dm.Score = m.Score
	return dm, nil
}

func (s *c06Searcher) Advance(ctx *search.SearchContext, ID index.IndexInternalID) (*search.DocumentMatch, error) {
	for s.pos < len(s.matches) {
		id := make([]byte, 8)
		binary.BigEndian.PutUint64(id, s.matches[s.pos].Num)
		if bytes.Compare(id, ID) >= 0 {
			break
		}
		s.pos++
	}
	return s.Next(ctx)
}
func (s *c06Searcher) Close() error               { return nil }
func (s *c06Searcher) Weight() float64            { return 1 }
func (s *c06Searcher) SetQueryNorm(float64)       {}
func (s *c06Searcher) Count() uint64              { return uint64(len(s.matches)) }
func (s *c06Searcher) Min() int                   { return 0 }
func (s *c06Searcher) Size() int                  { return 0 }
func (s *c06Searcher) DocumentMatchPoolSize() int { return 1 }

type c06Reader struct {
	byNum map[uint64]*c06Match
}

func (r *c06Reader) TermFieldReader(ctx context.Context, term []byte, field string, a, b, c bool) (index.TermFieldReader, error) {
	return nil, fmt.Errorf("stub")
}
func (r *c06Reader) DocIDReaderAll() (index.DocIDReader, error) { return nil, fmt.Errorf("stub") }
func (r *c06Reader) DocIDReaderOnly(ids []string) (index.DocIDReader, error) {
	return nil, fmt.Errorf("stub")
}
func (r *c06Reader) FieldDict(field string) (index.FieldDict, error) { return nil, fmt.Errorf("stub") }
func (r *c06Reader) FieldDictRange(field string, s, e []byte) (index.FieldDict, error) {
	return nil, fmt.Errorf("stub")
}
func (r *c06Reader) FieldDictPrefix(field string, p []byte) (index.FieldDict, error) {
	return nil, fmt.Errorf("stub")
}
func (r *c06Reader) Document(id string) (index.Document, error) { return nil, nil }
func (r *c06Reader) DocValueReader(fields []string) (index.DocValueReader, error) {
	return &c06DVR{r: r, fields: fields}, nil
}
func (r *c06Reader) Fields() ([]string, error)              { return []string{"fs", "fn"}, nil }
func (r *c06Reader) GetInternal(key []byte) ([]byte, error) { return nil, nil }
func (r *c06Reader) DocCount() (uint64, error)              { return uint64(len(r.byNum)), nil }
func (r *c06Reader) ExternalID(id index.IndexInternalID) (string, error) {
	m := r.byNum[binary.BigEndian.Uint64(id)]
	if m == nil {
		return "", fmt.Errorf("stub: unknown internal id %x", id)
	}
	return m.Ext, nil
}
func (r *c06Reader) InternalID(id string) (index.IndexInternalID, error) {
	return nil, fmt.Errorf("stub")
}
func (r *c06Reader) Close() error { return nil }

type c06DVR struct {
	r      *c06Reader
	fields []string
}

func (d *c06DVR) VisitDocValues(id index.IndexInternalID, visitor index.DocValueVisitor) error {
	m := d.r.byNum[binary.BigEndian.Uint64(id)]
	if m == nil {
		return fmt.Errorf("stub: unknown internal id %x", id)
	}
	for _, ft := range m.terms {
		for _, f := range d.fields {
			if f == ft[0] {
				visitor(ft[0], []byte(ft[1]))
			}
		}
	}
	return nil
}
func (d *c06DVR) BytesRead() uint64 { return 0 }

// ---------------------------------------------------------------- sort spec + oracle

type c06Key struct {
	Kind    string `json:"kind"` // score | id | fs | fn
	Desc    bool   `json:"desc,omitempty"`
	Missing string `json:"missing,omitempty"` // last | first
	Mode    string `json:"mode,omitempty"`    // default | min | max
	Type    string `json:"type,omitempty"`    // auto | string | number
}

func (k c06Key) Bleve() search.SearchSort {
	switch k.Kind {
	case "score":
		return &search.SortScore{Desc: k.Desc}
	case "id":
		return &search.SortDocID{Desc: k.Desc}
	}
	sf := &search.SortField{Field: k.Kind, Desc: k.Desc}
	if k.Missing == "first" {
		sf.Missing = search.SortFieldMissingFirst
	}
	switch k.Mode {
	case "min":
		sf.Mode = search.SortFieldMin
	case "max":
		sf.Mode = search.SortFieldMax
	}
	switch k.Type {
	case "string":
		sf.Type = search.SortFieldAsString
	case "number":
		sf.Type = search.SortFieldAsNumber
	}
	return sf
}

// keyOf returns (present, value) of a field key for a match; numbers are
// compared as numbers, strings bytewise.
func (k c06Key) fieldValue(m *c06Match) (present bool, s string, f float64) {
	if k.Kind == "fs" {
		if len(m.FS) == 0 {
			return false, "", 0
		}
		vals := append([]string(nil), m.FS...)
		sort.Strings(vals)
		switch k.Mode {
		case "max":
			return true, vals[len(vals)-1], 0
		case "min":
			return true, vals[0], 0
		}
		return true, m.FS[0], 0
	}
	if len(m.FN) == 0 {
		return false, "", 0
	}
	vals := append([]float64(nil), m.FN...)
	sort.Float64s(vals)
	switch k.Mode {
	case "max":
		return true, "", vals[len(vals)-1]
	case "min":
		return true, "", vals[0]
	}
	return true, "", m.FN[0]
}

func c06Compare(keys []c06Key, a, b *c06Match) int {
	for _, k := range keys {
		c := 0
		switch k.Kind {
		case "score":
			switch {
			case a.Score < b.Score:
				c = -1
			case a.Score > b.Score:
				c = 1
			}
		case "id":
			c = strings.Compare(a.Ext, b.Ext)
		default:
			pa, sa, fa := k.fieldValue(a)
			pb, sb, fb := k.fieldValue(b)
			switch {
			case !pa && !pb:
				continue
			case !pa || !pb:
				// a document missing the field goes last (or first) whatever the direction
				missingFirst := k.Missing == "first"
				if !pa == missingFirst {
					return -1
				}
				return 1
			}
			if k.Kind == "fs" {
				c = strings.Compare(sa, sb)
			} else {
				switch {
				case fa < fb:
					c = -1
				case fa > fb:
					c = 1
				}
			}
		}
		if c == 0 {
			continue
		}
		if k.Desc {
			c = -c
		}
		return c
	}
	return 0
}

func numTerms(f float64) []string {
	i64 := numeric.Float64ToInt64(f)
	var out []string
	for shift := uint(0); shift < 64; shift += 4 {
		out = append(out, string(numeric.MustNewPrefixCodedInt64(i64, shift)))
	}
	return out
}

func genC06Keys(t *rapid.T, multiValued bool) []c06Key {
	n := rapid.IntRange(1, 3).Draw(t, "nkeys")
	var keys []c06Key
	for i := 0; i < n; i++ {
		k := c06Key{Kind: rapid.SampledFrom([]string{"score", "id", "fs", "fn", "fs", "fn"}).Draw(t, "keykind")}
		k.Desc = rapid.Bool().Draw(t, "desc")
		if k.Kind == "fs" || k.Kind == "fn" {
			k.Missing = rapid.SampledFrom([]string{"last", "first"}).Draw(t, "missing")
			if multiValued {
				k.Mode = rapid.SampledFrom([]string{"min", "max"}).Draw(t, "mode")
			} else {
				k.Mode = rapid.SampledFrom([]string{"default", "min", "max"}).Draw(t, "mode")
			}
			if k.Kind == "fs" {
				k.Type = rapid.SampledFrom([]string{"auto", "string"}).Draw(t, "type")
			} else {
				k.Type = rapid.SampledFrom([]string{"auto", "number"}).Draw(t, "type")
			}
		}
		keys = append(keys, k)
	}
	return keys
}

func TestC06Collector(t *testing.T) {
	ev := Ev("C06")
	ev.SetRule("collector level (rapid): synthetic searcher feeding 0-60 matches with few distinct scores, stub reader serving generated doc values (strings, prefix-coded numbers at all 16 shifts, missing, multi-valued) and external ids; " +
		"sort = 1-3 keys of score/id/field(asc|desc, missing first|last, mode default|min|max, type auto|string|number); size,skip in 0..15 (crossing the slice/heap store switch at 10) with PreAllocSizeSkipCap in {4,1000}; " +
		"oracle = stable sort of the full stream by an independent comparator, slice [skip,skip+size), Total=N, MaxScore=max; " +
		"index level: generated corpora on both engines, sorts made total with _id, From/Size pages must tile the Size=all ordering and SearchAfter/SearchBefore from every hit must return the following/preceding page; " +
		"non-trivial = >=2 matches tie on the first sort key and the page boundary cuts the list (0 < skip+size < N)")
	ev.Assume("mode=default is used only with single-valued fields (first value is visit-order specific); real values never collide with the missing sentinels")
	checkPropN(t, "C06", 3000, func(t *rapid.T) {
		n := rapid.IntRange(0, 60).Draw(t, "n")
		multi := rapid.Bool().Draw(t, "multi")
		keys := genC06Keys(t, multi)
		size := rapid.IntRange(0, 15).Draw(t, "size")
		skip := rapid.IntRange(0, 15).Draw(t, "skip")
		oldCap := collector.PreAllocSizeSkipCap
		collector.PreAllocSizeSkipCap = rapid.SampledFrom([]int{4, 1000}).Draw(t, "cap")
		defer func() { collector.PreAllocSizeSkipCap = oldCap }()
		scores := []float64{0, 0.5, 1, 1, 2.25}
		strs := []string{"a", "ab", "b", "ba", "x"}
		nums := []float64{-1, 0, 0.5, 1, 16, 17}
		matches := make([]c06Match, n)
		rd := &c06Reader{byNum: map[uint64]*c06Match{}}
		num := uint64(0)
		extSeen := map[string]bool{}
		for i := range matches {
			num += uint64(rapid.IntRange(1, 3).Draw(t, "gap"))
			m := &matches[i]
			m.Num = num
			for {
				m.Ext = fmt.Sprintf("e%02d", rapid.IntRange(0, 99).Draw(t, "ext"))
				if !extSeen[m.Ext] {
					extSeen[m.Ext] = true
					break
				}
			}
			m.Score = rapid.SampledFrom(scores).Draw(t, "score")
			maxVals := 1
			if multi {
				maxVals = 3
			}
			for j, c := 0, rapid.IntRange(0, maxVals).Draw(t, "nfs"); j < c; j++ {
				m.FS = append(m.FS, rapid.SampledFrom(strs).Draw(t, "fs"))
			}
			for j, c := 0, rapid.IntRange(0, maxVals).Draw(t, "nfn"); j < c; j++ {
				m.FN = append(m.FN, rapid.SampledFrom(nums).Draw(t, "fn"))
			}
			for _, s := range m.FS {
				m.terms = append(m.terms, [2]string{"fs", s})
			}
			for _, f := range m.FN {
				ts := numTerms(f)
				// doc values arrive in term order, not shift order
				sort.Strings(ts)
				for _, tm := range ts {
					m.terms = append(m.terms, [2]string{"fn", tm})
				}
			}
			rd.byNum[m.Num] = m
		}
		// Mode default with a multi-term numeric field: the "first" shift-0 term is what the
		// collector sees; with a single value that is the value itself.
		var so search.SortOrder
		for _, k := range keys {
			so = append(so, k.Bleve())
		}
		coll := collector.NewTopNCollector(size, skip, so)
		if err := coll.Collect(context.Background(), &c06Searcher{matches: matches}, rd); err != nil {
			t.Fatalf("Collect: %v", err)
		}
		// oracle
		order := make([]*c06Match, n)
		for i := range matches {
			order[i] = &matches[i]
		}
		sort.SliceStable(order, func(i, j int) bool { return c06Compare(keys, order[i], order[j]) < 0 })
		lo, hi := skip, skip+size
		if lo > n {
			lo = n
		}
		if hi > n {
			hi = n
		}
		var want []string
		for _, m := range order[lo:hi] {
			want = append(want, m.Ext)
		}
		var got []string
		for _, h := range coll.Results() {
			got = append(got, h.ID)
		}
		desc := func() string {
			return fmt.Sprintf("sort=%s size=%d skip=%d cap=%d matches=%s", canonJSON(keys), size, skip, collector.PreAllocSizeSkipCap, canonJSON(matches))
		}
		if strings.Join(got, ",") != strings.Join(want, ",") {
			t.Fatalf("hits %v, want %v (%s)", got, want, desc())
		}
		if coll.Total() != uint64(n) {
			t.Fatalf("Total=%d, want %d (%s)", coll.Total(), n, desc())
		}
		maxScore := 0.0
		for _, m := range matches {
			if m.Score > maxScore {
				maxScore = m.Score
			}
		}
		if coll.MaxScore() != maxScore {
			t.Fatalf("MaxScore=%v, want %v (%s)", coll.MaxScore(), maxScore, desc())
		}
		ties := false
		for i := 1; i < n; i++ {
			if c06Compare(keys[:1], order[i-1], order[i]) == 0 {
				ties = true
			}
		}
		nt := ties && skip+size > 0 && skip+size < n
		var cl []string
		if skip+size > 10 {
			cl = append(cl, "heap-store")
		} else {
			cl = append(cl, "slice-store")
		}
		if skip+size > collector.PreAllocSizeSkipCap {
			cl = append(cl, "prealloc-cap-crossed")
		}
		for _, k := range keys {
			if k.Desc && k.Missing == "first" {
				cl = append(cl, "desc+missing-first")
			}
			if multi && (k.Mode == "min" || k.Mode == "max") {
				cl = append(cl, "multi-valued-"+k.Mode)
			}
			cl = append(cl, "key:"+k.Kind)
		}
		canon := map[string]interface{}{"keys": keys, "size": size, "skip": skip, "matches": matches}
		ev.Case(nt, canon, canon, cl...)
	})
}

// ---------------------------------------------------------------- index level

func c06IndexSorts() [][]string {
	return [][]string{{"_id"}, {"-_id"}, {"k", "_id"}, {"-k", "_id"}, {"n", "-_id"}, {"-n", "_id"}, {"d", "_id"}, {"-d", "_id"}, {"d", "-_id"}, {"-_score", "_id"}, {"_score", "-_id"}, {"b", "k", "_id"}}
}

func hitIDs(res *bleve.SearchResult) []string {
	var ids []string
	for _, h := range res.Hits {
		ids = append(ids, h.ID)
	}
	return ids
}

func TestC06IndexPaging(t *testing.T) {
	ev := Ev("C06")
	checkPropN(t, "C06", 300, func(t *rapid.T) {
		dopts := DocGenOpts{Nums: SmallNums, Dates: c10Dates}
		if rapid.IntRange(0, 2).Draw(t, "numberLikeWords") == 0 {
			dopts.KWords = NumberLikeWords // keyword values that look like typed (prefix-coded) terms
		}
		c := BuildCorpus(t, CorpusOpts{Doc: dopts, MaxSteps: 6})
		g := QGen{NoFuzzy: true, Nums: SmallNums, Dates: c10Dates,
			LeafKinds: []string{"all", "all", "term", "match", "prefix", "numrange"}}
		q := g.Tree(t, "q", 1)
		sortSpec := rapid.SampledFrom(c06IndexSorts()).Draw(t, "sort")
		typed := rapid.Bool().Draw(t, "typedSort")
		missingFirst := typed && rapid.Bool().Draw(t, "missingFirst")
		reuse := rapid.Bool().Draw(t, "reuseRequest")
		mk := func(size, from int) *bleve.SearchRequest {
			req := bleve.NewSearchRequestOptions(q.Bleve(), size, from, false)
			if typed {
				var so search.SortOrder
				for _, s := range sortSpec {
					ss := search.ParseSearchSortString(s)
					if sf, ok := ss.(*search.SortField); ok {
						switch sf.Field {
						case "n":
							sf.Type = search.SortFieldAsNumber
							sf.Mode = search.SortFieldMin
						case "d":
							sf.Type = search.SortFieldAsDate
							sf.Mode = search.SortFieldMin
						default:
							sf.Type = search.SortFieldAsString
							sf.Mode = search.SortFieldMin
						}
						if missingFirst {
							sf.Missing = search.SortFieldMissingFirst
						}
					}
					so = append(so, ss)
				}
				req.SortByCustom(so)
			} else {
				req.SortBy(sortSpec)
			}
			return req
		}
		full := mk(50, 0)
		if full.Validate() != nil {
			return
		}
		fres, err := SearchWatchdog(c.Idx, full)
		if err != nil {
			t.Fatalf("full search %s sort %v on %s: %v", q, sortSpec, c.Cfg, err)
		}
		all := hitIDs(fres)
		n := len(all)
		if int(fres.Total) != n {
			t.Fatalf("Total=%d with %d hits", fres.Total, n)
		}
		size := rapid.IntRange(1, 4).Draw(t, "pageSize")
		// pages tile the ordering
		var tiled []string
		for from := 0; from < n+size; from += size {
			pres, err := SearchWatchdog(c.Idx, mk(size, from))
			if err != nil {
				t.Fatalf("page from=%d: %v", from, err)
			}
			if int(pres.Total) != n {
				t.Fatalf("query %s sort %v on %s: page from=%d Total=%d, full Total=%d", q, sortSpec, c.Cfg, from, pres.Total, n)
			}
			tiled = append(tiled, hitIDs(pres)...)
		}
		if strings.Join(tiled, ",") != strings.Join(all, ",") {
			t.Fatalf("query %s sort %v typed=%v size=%d on %s: pages %v do not tile the full ordering %v", q, sortSpec, typed, size, c.Cfg, tiled, all)
		}
		// search after / before from every hit.  Only when sort keys can be fed back
		// exactly: typed sorts (DecodedSort) or untyped sorts over string/id keys.
		usesScore := false
		numericUntyped := false
		for _, s := range sortSpec {
			f := strings.TrimPrefix(s, "-")
			if f == "_score" {
				usesScore = true
			}
			if !typed && (f == "n" || f == "d") {
				numericUntyped = true
			}
		}
		afterChecked := 0
		var reusedAfter, reusedBefore *bleve.SearchRequest
		if !usesScore {
			for i, h := range fres.Hits {
				keys := h.Sort
				if typed {
					keys = h.DecodedSort
				}
				if numericUntyped {
					keys = h.Sort
				}
				// either a fresh request per page or one request object re-used for every page, as
				// a caller paging through results would
				ra := mk(size, 0)
				if reuse {
					if reusedAfter == nil {
						reusedAfter, reusedBefore = mk(size, 0), mk(size, 0)
					}
					ra = reusedAfter
				}
				ra.SetSearchAfter(keys)
				if err := ra.Validate(); err != nil {
					t.Fatalf("search-after request with keys %q of hit %s rejected: %v", keys, h.ID, err)
				}
				ares, err := SearchWatchdog(c.Idx, ra)
				if err != nil {
					t.Fatalf("search after: %v", err)
				}
				hi := i + 1 + size
				if hi > n {
					hi = n
				}
				if want, got := all[i+1:hi], hitIDs(ares); strings.Join(want, ",") != strings.Join(got, ",") {
					t.Fatalf("query %s sort %v typed=%v on %s: SearchAfter(%s keys %q) returned %v, want %v (full order %v)", q, sortSpec, typed, c.Cfg, h.ID, keys, got, want, all)
				}
				rb := mk(size, 0)
				if reuse {
					rb = reusedBefore
				}
				rb.SetSearchBefore(keys)
				bres, err := SearchWatchdog(c.Idx, rb)
				if err != nil {
					t.Fatalf("search before: %v", err)
				}
				lo := i - size
				if lo < 0 {
					lo = 0
				}
				if want, got := all[lo:i], hitIDs(bres); strings.Join(want, ",") != strings.Join(got, ",") {
					t.Fatalf("query %s sort %v typed=%v on %s: SearchBefore(%s keys %q) returned %v, want %v (full order %v)", q, sortSpec, typed, c.Cfg, h.ID, keys, got, want, all)
				}
				afterChecked++
			}
		}
		// the ordering itself: sorted by the model's keys (ties broken by _id, which is in every spec)
		if reuse && reusedBefore != nil {
			// the request used for all those pages still lists the same ordering
			reusedBefore.SearchBefore, reusedBefore.Size, reusedBefore.From = nil, 50, 0
			rres, err := SearchWatchdog(c.Idx, reusedBefore)
			if err != nil {
				t.Fatalf("re-used request: %v", err)
			}
			if got := hitIDs(rres); strings.Join(got, ",") != strings.Join(all, ",") {
				t.Fatalf("query %s sort %v typed=%v missingFirst=%v on %s: the request object used for the SearchBefore pages now lists %v, a fresh request lists %v", q, sortSpec, typed, missingFirst, c.Cfg, got, all)
			}
		}
		if msg := c06CheckOrder(c.Model, all, sortSpec, typed, missingFirst); msg != "" {
			t.Fatalf("query %s sort %v typed=%v on %s: %s (order %v)", q, sortSpec, typed, c.Cfg, msg, all)
		}
		nt := n >= 3 && size < n
		cl := []string{"index-level", "engine:" + c.Cfg.Engine, "sort:" + strings.Join(sortSpec, ",")}
		if afterChecked > 0 {
			cl = append(cl, "search-after/before")
			if typed {
				cl = append(cl, "search-after-typed-keys")
			}
		}
		canon := map[string]interface{}{"cfg": c.Cfg, "steps": c.Steps, "q": q.String(), "sort": sortSpec, "typed": typed, "size": size}
		sample := map[string]interface{}{"cfg": c.Cfg, "q": q.String(), "sort": sortSpec, "typed": typed, "pageSize": size, "order": all}
		ev.Case(nt, canon, sample, cl...)
	})
}

// c06CheckOrder verifies that ids are ordered by the sort spec according to the model
// (only for typed sorts with min mode, or single-valued fields).
func c06CheckOrder(m *State, ids []string, spec []string, typed bool, missingFirst bool) string {
	type key struct {
		missing bool
		s       string
		f       float64
		isNum   bool
	}
	keyOf := func(id, field string) (key, bool) {
		d := m.Docs[id]
		switch field {
		case "_id":
			return key{s: id}, true
		case "_score":
			return key{}, false
		}
		fl := d[field]
		if fl == nil {
			return key{missing: true}, true
		}
		if !typed && fl.IsArray && len(fl.S)+len(fl.N)+len(fl.D)+len(fl.B) > 1 {
			return key{}, false // default mode on multi-valued: unspecified
		}
		switch {
		case fl.N != nil:
			v := append([]float64(nil), fl.N...)
			sort.Float64s(v)
			return key{f: v[0], isNum: true}, true
		case fl.D != nil:
			min := fl.D[0]
			for _, x := range fl.D {
				if x < min {
					min = x
				}
			}
			return key{f: float64(min), isNum: true, s: strconv.FormatInt(min, 10)}, true
		case fl.S != nil:
			toks := d.AllTokens(field)
			if len(toks) == 0 {
				return key{missing: true}, true
			}
			if !typed && len(toks) > 1 {
				return key{}, false
			}
			sort.Strings(toks)
			return key{s: toks[0]}, true
		case fl.B != nil:
			if !typed && len(fl.B) > 1 {
				return key{}, false
			}
			s := "T"
			for _, b := range fl.B {
				if !b {
					s = "F"
				}
			}
			return key{s: s}, true
		}
		return key{missing: true}, true
	}
	for i := 1; i < len(ids); i++ {
		a, b := ids[i-1], ids[i]
		for _, s := range spec {
			desc := strings.HasPrefix(s, "-")
			f := strings.TrimPrefix(s, "-")
			ka, oka := keyOf(a, f)
			kb, okb := keyOf(b, f)
			if !oka || !okb {
				break // unjudgeable key: stop comparing this pair
			}
			c := 0
			switch {
			case ka.missing && kb.missing:
			case ka.missing:
				c = 1 // missing last (or first) in both directions
				if missingFirst {
					c = -1
				}
				desc = false
			case kb.missing:
				c = -1
				if missingFirst {
					c = 1
				}
				desc = false
			case ka.isNum && f == "d":
				ai, _ := strconv.ParseInt(ka.s, 10, 64)
				bi, _ := strconv.ParseInt(kb.s, 10, 64)
				if ai < bi {
					c = -1
				} else if ai > bi {
					c = 1
				}
			case ka.isNum:
				if ka.f < kb.f {
					c = -1
				} else if ka.f > kb.f {
					c = 1
				}
			default:
				c = strings.Compare(ka.s, kb.s)
			}
			if desc {
				c = -c
			}
			if c < 0 {
				break
			}
			if c > 0 {
				return fmt.Sprintf("hit %s precedes %s but sorts after it on key %q", a, b, s)
			}
		}
	}
	return ""
}

var _ = time.Now
