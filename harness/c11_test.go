//go:build verif

package harness

import (
	"context"
	"errors"
	"fmt"
	"os"
	"path/filepath"
	"runtime"
	"strings"
	"sync"
	"sync/atomic"
	"testing"
	"time"

	"github.com/blevesearch/bleve/v2"
	"github.com/blevesearch/bleve/v2/index/scorch"
	"github.com/blevesearch/bleve/v2/index/scorch/mergeplan"
	"pgregory.net/rapid"
)

// C11 — the index API is safe under arbitrary concurrent use and Close always completes.

type c11Op struct {
	Kind string `json:"kind"`
	ID   string `json:"id,omitempty"`
	Text string `json:"text,omitempty"`
	N    int    `json:"n,omitempty"`   // batch size / delay in microseconds
	Pre  bool   `json:"pre,omitempty"` // cancel before the search starts
}

var c11AsyncErr atomic.Value
var c11Once sync.Once

func c11Register() {
	c11Once.Do(func() {
		scorch.RegistryAsyncErrorCallbacks["verif-c11"] = func(err error, path string) {
			c11AsyncErr.Store(fmt.Sprintf("%s: %v", path, err))
		}
	})
}

var c11MixedOps = []string{"index", "index", "delete", "batch", "batch", "search", "search", "searchDeadline", "searchCancel", "document", "doccount",
	"fields", "fielddict", "stats", "forcemerge", "copy", "getinternal", "setinternal"}

// maintenance profile: backups, forced merges and writes dominate, so that several backups
// overlap each other and the persister's file clean-up
var c11MaintenanceOps = []string{"copy", "copy", "copy", "batch", "batch", "index", "delete", "forcemerge", "search", "stats"}

func genC11Op(t *rapid.T, kinds []string) c11Op {
	kind := rapid.SampledFrom(kinds).Draw(t, "op")
	op := c11Op{Kind: kind}
	switch kind {
	case "index", "delete", "document":
		op.ID = rapid.SampledFrom(DocIDs).Draw(t, "id")
		op.Text = genWords(t, "w", 1, 3)
	case "batch":
		op.N = rapid.IntRange(1, 4).Draw(t, "n")
		op.Text = genWords(t, "w", 1, 3)
	case "search", "searchDeadline":
		op.Text = rapid.SampledFrom(Vocab).Draw(t, "term")
		op.N = rapid.IntRange(1, 5000).Draw(t, "deadlineUS")
	case "searchCancel":
		op.Text = rapid.SampledFrom(Vocab).Draw(t, "term")
		op.Pre = rapid.Bool().Draw(t, "pre")
		op.N = rapid.IntRange(0, 500).Draw(t, "cancelAfterUS")
	}
	return op
}

func bleveGoroutines() []string {
	buf := make([]byte, 4<<20)
	n := runtime.Stack(buf, true)
	var out []string
	for _, g := range strings.Split(string(buf[:n]), "\n\n") {
		if strings.Contains(g, "github.com/blevesearch/bleve/v2") && !strings.Contains(g, "bleveGoroutines") {
			out = append(out, g)
		}
	}
	return out
}

func TestC11Concurrent(t *testing.T) {
	c11Register()
	ev := Ev("C11")
	ev.SetRule("rapid: 4-8 goroutines each running 4-14 generated operations (Index, Delete, Batch, Search with and without a deadline, Search with a context cancelled before or during the call, Document, DocCount, Fields, FieldDict (closed), Stats/StatsMap, ForceMerge, CopyTo, Set/GetInternal) with one Close issued by a generated goroutine at a generated position, on scorch disk/memory and upsidedown gtreap/boltdb, under a seeded delay plan and GOMAXPROCS in {2,4,16}; the binary is built with -race. " +
		"Oracle: no goroutine panics, no async error callback, the race detector stays silent (non-zero exit with a race log), every call returns within the 60 s watchdog, Close returns, every call started after Close returned yields ErrorIndexClosed, calls overlapping Close yield a result or that error, a search cancelled before it starts returns the context error, a search cancelled in flight returns a result or the context error and the next search works; 2 s after Close no goroutine has a frame in bleve and no fd/mmap of the index remains; " +
		"three cases in four on scorch disk aim Close at a window (the first background goroutines reaching a drawn hook point - mostly the hand-off points before an introduction - wait there until Close has started; for merge points two goroutines begin with a batch and a forced merge); through an index alias (TestC11Alias): 2-5 goroutines search, read, write to and re-arrange (Swap/Add/Remove) an alias of 1-3 member indexes while members are closed under it and the alias itself is closed; every call must return within 60 s, nothing may panic, the race detector stays silent; one case in four on scorch disk uses a maintenance profile (mostly CopyTo, Batch, ForceMerge; Close last) so that backups overlap each other and the persister's clean-up; non-trivial = >=4 goroutines ran and Close started while >=1 write or >=1 search was in flight, or two backups overlapped")
	ev.Assume("schedules are sampled, not enumerated; data races are found only when the detector sees both accesses in one run")
	checkPropN(t, "C11", 80, func(t *rapid.T) {
		cfg := Config{Engine: rapid.SampledFrom([]string{EngScorchDisk, EngScorchDisk, EngScorchMem, EngUDGtreap, EngUDBolt}).Draw(t, "engine")}
		if cfg.Engine == EngScorchDisk {
			cfg = genC03Config(t)
		}
		cfg.AsyncErrCB = "verif-c11"
		kinds := c11MixedOps
		maintenance := cfg.Engine == EngScorchDisk && rapid.IntRange(0, 3).Draw(t, "maintenance") == 0
		if maintenance {
			kinds = c11MaintenanceOps
		}
		ng := rapid.IntRange(4, 8).Draw(t, "ngoroutines")
		plans := make([][]c11Op, ng)
		for g := range plans {
			n := rapid.IntRange(4, 14).Draw(t, "nops")
			for i := 0; i < n; i++ {
				plans[g] = append(plans[g], genC11Op(t, kinds))
			}
		}
		closer := rapid.IntRange(0, ng-1).Draw(t, "closer")
		closeAt := rapid.IntRange(1, len(plans[closer])).Draw(t, "closeAt")
		if maintenance {
			closeAt = len(plans[closer]) // Close late: the point of this profile is overlap among the operations
		}
		seed := rapid.Uint64().Draw(t, "delaySeed")
		procs := rapid.SampledFrom([]int{2, 4, 16}).Draw(t, "gomaxprocs")
		old := runtime.GOMAXPROCS(procs)
		defer runtime.GOMAXPROCS(old)
		InstallHook(HookPlan{Mode: "delay", DelaySeed: seed, DelayMaxUS: 500})
		defer ClearHook()
		// Close aimed at a window: the first background goroutines to reach one drawn hook point
		// (a point at which they hold no lock) wait there until Close has started
		holdPoint := ""
		if cfg.Engine == EngScorchDisk && rapid.IntRange(0, 3).Draw(t, "aimClose") != 0 {
			// mostly the hand-off points, at which a goroutine is about to pass work to another one
			if rapid.IntRange(0, 3).Draw(t, "closeAt.any") == 0 {
				holdPoint = rapid.SampledFrom(sortedKeys(lockFreePoints)).Draw(t, "closeAt.point")
			} else {
				holdPoint = rapid.SampledFrom(append([]string{"batch.beforeIntroduce"}, RendezvousPoints...)).Draw(t, "closeAt.handoff")
			}
			if v := os.Getenv("VERIF_DEBUG_HOLDPOINT"); v != "" {
				holdPoint = v
			}
			if strings.HasPrefix(holdPoint, "merge.") {
				// make sure a file merge is under way: two other goroutines start with a batch
				// and a forced merge
				for g, n := 0, 0; g < ng && n < 2; g++ {
					if g != closer && len(plans[g]) >= 2 {
						plans[g][0] = c11Op{Kind: "batch", N: 3, Text: "a ab"}
						plans[g][1] = c11Op{Kind: "forcemerge"}
						n++
					}
				}
			}
		}
		holdExtra := time.Duration(rapid.SampledFrom([]int{0, 200, 2000, 10000}).Draw(t, "closeAt.extraUS")) * time.Microsecond
		var closeStartedP atomic.Pointer[atomic.Bool]
		var held atomic.Int64
		if holdPoint != "" {
			SetOnPoint(func(p string) {
				if p != holdPoint || held.Add(1) > 3 {
					return
				}
				for dl := time.Now().Add(300 * time.Millisecond); time.Now().Before(dl); {
					if cs := closeStartedP.Load(); cs != nil && cs.Load() {
						time.Sleep(holdExtra) // let Close get as far as stopping the other goroutines
						break
					}
					time.Sleep(100 * time.Microsecond)
				}
			})
			defer SetOnPoint(nil)
		}
		c11AsyncErr = atomic.Value{}
		dir := TempDir(t)
		idxDir := filepath.Join(dir, "idx")
		idx, err := cfg.Create(idxDir, WorldMapping())
		if err != nil {
			t.Fatalf("create %s: %v", cfg, err)
		}
		for i, id := range DocIDs[:4] {
			_ = idx.Index(id, map[string]interface{}{"t": Vocab[i] + " " + Vocab[i+1]})
		}
		var closeStarted, closeReturned atomic.Bool
		closeStartedP.Store(&closeStarted)
		var inflightWrites, inflightSearches, overlapW, overlapS, inflightCopies, overlapCopies atomic.Int64
		var problems sync.Map
		report := func(g, i int, op c11Op, format string, a ...interface{}) {
			problems.Store(fmt.Sprintf("goroutine %d op %d %s: ", g, i, canonJSON(op))+fmt.Sprintf(format, a...), true)
		}
		var wg sync.WaitGroup
		runOp := func(g, i int, op c11Op) {
			defer func() {
				if p := recover(); p != nil {
					buf := make([]byte, 8192)
					report(g, i, op, "PANIC %v\n%s", p, buf[:runtime.Stack(buf, false)])
				}
			}()
			afterClose := closeReturned.Load()
			var err error
			ctxErrOK := false
			isWrite := op.Kind == "index" || op.Kind == "delete" || op.Kind == "batch" || op.Kind == "setinternal"
			isSearch := strings.HasPrefix(op.Kind, "search")
			if isWrite {
				inflightWrites.Add(1)
				defer inflightWrites.Add(-1)
			}
			if isSearch {
				inflightSearches.Add(1)
				defer inflightSearches.Add(-1)
			}
			switch op.Kind {
			case "index":
				err = idx.Index(op.ID, map[string]interface{}{"t": op.Text, "n": float64(i)})
			case "delete":
				err = idx.Delete(op.ID)
			case "batch":
				b := idx.NewBatch()
				for k := 0; k < op.N; k++ {
					_ = b.Index(DocIDs[(g+k)%len(DocIDs)], map[string]interface{}{"t": op.Text})
				}
				b.Delete(DocIDs[(g+i)%len(DocIDs)])
				err = idx.Batch(b)
			case "search":
				tq := bleve.NewTermQuery(op.Text)
				tq.SetField("t")
				_, err = idx.Search(bleve.NewSearchRequest(bleve.NewDisjunctionQuery(tq, bleve.NewMatchAllQuery())))
			case "searchDeadline":
				ctx, cancel := context.WithTimeout(context.Background(), time.Duration(op.N)*time.Microsecond)
				_, err = idx.SearchInContext(ctx, bleve.NewSearchRequest(bleve.NewMatchAllQuery()))
				cancel()
				ctxErrOK = true
			case "searchCancel":
				ctx, cancel := context.WithCancel(context.Background())
				if op.Pre {
					cancel()
				} else {
					go func() { time.Sleep(time.Duration(op.N) * time.Microsecond); cancel() }()
				}
				_, err = idx.SearchInContext(ctx, bleve.NewSearchRequest(bleve.NewMatchAllQuery()))
				cancel()
				ctxErrOK = true
				if op.Pre && !afterClose && err == nil && !closeStarted.Load() {
					report(g, i, op, "a search whose context was already cancelled returned a result instead of the context error")
				}
				// the index stays usable
				if _, err2 := idx.Search(bleve.NewSearchRequest(bleve.NewMatchAllQuery())); err2 != nil && !closeStarted.Load() {
					report(g, i, op, "search after a cancelled search failed: %v", err2)
				}
			case "document":
				_, err = idx.Document(op.ID)
			case "doccount":
				_, err = idx.DocCount()
			case "fields":
				_, err = idx.Fields()
			case "fielddict":
				var fd interface{ Close() error }
				d, e := idx.FieldDict("t")
				err = e
				if e == nil && d != nil {
					fd = d
					_, _ = d.Next()
					_ = fd.Close()
				}
			case "stats":
				_ = idx.StatsMap()
				_ = idx.Stats()
			case "forcemerge":
				if s := ScorchOf(idx); s != nil && cfg.Engine == EngScorchDisk {
					ctx, cancel := context.WithTimeout(context.Background(), 30*time.Second)
					e := s.ForceMerge(ctx, &mergeplan.SingleSegmentMergePlanOptions)
					cancel()
					if e != nil && !strings.Contains(e.Error(), "already in progress") {
						err = e
					}
				}
			case "copy":
				if ic, ok := idx.(bleve.IndexCopyable); ok && cfg.Engine == EngScorchDisk {
					if inflightCopies.Add(1) >= 2 {
						overlapCopies.Add(1)
					}
					defer inflightCopies.Add(-1)
					e := ic.CopyTo(bleve.FileSystemDirectory(filepath.Join(dir, fmt.Sprintf("copy-%d-%d", g, i))))
					err = e
				}
			case "reader":
				adv, e := idx.Advanced()
				if e != nil {
					err = e
					break
				}
				r, e := adv.Reader()
				if e != nil || r == nil {
					// the engine below the index is closed
					break
				}
				_, _ = r.DocCount()
				_ = r.Close()
			case "getinternal":
				_, err = idx.GetInternal([]byte("k"))
			case "setinternal":
				err = idx.SetInternal([]byte("k"), []byte(op.Text))
			}
			switch {
			case err == nil:
				if afterClose && op.Kind != "stats" && op.Kind != "forcemerge" && op.Kind != "copy" && op.Kind != "reader" {
					report(g, i, op, "the call started after Close had returned but succeeded instead of returning ErrorIndexClosed")
				}
			case errors.Is(err, bleve.ErrorIndexClosed):
				if !closeStarted.Load() {
					report(g, i, op, "returned ErrorIndexClosed although Close had not been called")
				}
			case ctxErrOK && (errors.Is(err, context.Canceled) || errors.Is(err, context.DeadlineExceeded)):
			default:
				if op.Kind == "copy" && closeStarted.Load() {
					break // a copy interrupted by Close may report the closed engine
				}
				report(g, i, op, "unexpected error: %v (close started=%v returned=%v)", err, closeStarted.Load(), closeReturned.Load())
			}
		}
		done := make(chan struct{})
		for g := range plans {
			wg.Add(1)
			go func(g int) {
				defer wg.Done()
				for i, op := range plans[g] {
					if g == closer && i == closeAt-1 {
						overlapW.Store(inflightWrites.Load())
						overlapS.Store(inflightSearches.Load())
						closeStarted.Store(true)
						if err := idx.Close(); err != nil {
							problems.Store(fmt.Sprintf("Close returned %v", err), true)
						}
						closeReturned.Store(true)
					}
					runOp(g, i, op)
				}
			}(g)
		}
		go func() { wg.Wait(); close(done) }()
		select {
		case <-done:
		case <-time.After(60 * time.Second):
			a := strings.Join(bleveGoroutines(), "\n\n")
			time.Sleep(2 * time.Second)
			b := strings.Join(bleveGoroutines(), "\n\n")
			_ = os.WriteFile(fmt.Sprintf("replay-C11-hang-%d.txt", time.Now().UnixNano()), []byte(a+"\n\n======== 2s later ========\n\n"+b), 0o644)
			FatalNoShrink(fmt.Sprintf("C11: calls did not return within 60s on %s (plans %s, closer %d at %d, seed %d); goroutine dumps saved", cfg, canonJSON(plans), closer, closeAt, seed))
		}
		if !closeReturned.Load() {
			// the closer's plan position was beyond its list: close now
			closeStarted.Store(true)
			if err := idx.Close(); err != nil {
				t.Fatalf("Close: %v", err)
			}
			closeReturned.Store(true)
		}
		var msgs []string
		problems.Range(func(k, _ interface{}) bool { msgs = append(msgs, k.(string)); return true })
		desc := fmt.Sprintf("config %s, GOMAXPROCS=%d, delay seed %d, closer goroutine %d before its op %d\nplans %s", cfg, procs, seed, closer, closeAt-1, canonJSON(plans))
		if len(msgs) > 0 {
			t.Fatalf("%s\n%s", strings.Join(msgs, "\n"), desc)
		}
		if e := c11AsyncErr.Load(); e != nil {
			t.Fatalf("a background task reported an error: %v\n%s", e, desc)
		}
		// after Close: every further call reports the closed index
		if _, err := idx.DocCount(); !errors.Is(err, bleve.ErrorIndexClosed) {
			t.Fatalf("DocCount after Close returned %v\n%s", err, desc)
		}
		if _, err := idx.Search(bleve.NewSearchRequest(bleve.NewMatchAllQuery())); !errors.Is(err, bleve.ErrorIndexClosed) {
			t.Fatalf("Search after Close returned %v\n%s", err, desc)
		}
		if err := idx.Index("d0", map[string]interface{}{"t": "a"}); !errors.Is(err, bleve.ErrorIndexClosed) {
			t.Fatalf("Index after Close returned %v\n%s", err, desc)
		}
		// background work stopped, nothing left open
		var left []string
		for wait := 0; wait < 20; wait++ {
			if left = bleveGoroutines(); len(left) == 0 {
				break
			}
			time.Sleep(100 * time.Millisecond)
		}
		if len(left) > 0 {
			t.Fatalf("2 s after Close %d goroutines still run bleve code, e.g.\n%s\n%s", len(left), left[0], desc)
		}
		if open := openFilesUnder(idxDir); len(open) > 0 {
			t.Fatalf("after Close these files of the index are still open: %v\n%s", open, desc)
		}
		nt := ng >= 4 && (overlapW.Load() >= 1 || overlapS.Load() >= 1 || overlapCopies.Load() >= 1)
		cl := []string{"engine:" + cfg.Engine, fmt.Sprintf("gomaxprocs:%d", procs)}
		if overlapW.Load() >= 1 {
			cl = append(cl, "close-during-write")
		}
		if overlapS.Load() >= 1 {
			cl = append(cl, "close-during-search")
		}
		if maintenance {
			cl = append(cl, "maintenance-profile")
		}
		if holdPoint != "" && held.Load() > 0 {
			cl = append(cl, "close-aimed-at-a-background-window")
		}
		if overlapCopies.Load() >= 1 {
			cl = append(cl, "overlapping-backups")
		}
		canon := map[string]interface{}{"cfg": cfg, "plans": plans, "closer": closer, "closeAt": closeAt, "seed": seed, "procs": procs}
		smp := map[string]interface{}{"cfg": cfg, "goroutines": ng, "closer": closer, "close_before_op": closeAt - 1, "delay_seed": seed, "gomaxprocs": procs, "first_plan": plans[0], "writes_in_flight_at_close": overlapW.Load(), "searches_in_flight_at_close": overlapS.Load()}
		ev.Case(nt, canon, smp, cl...)
	})
}
