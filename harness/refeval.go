package harness

// Reference query evaluator: the documented meaning of each query type,
// evaluated over tokens the harness computes itself.  Three-valued (Kleene):
// Either is used only where the documentation is ambiguous (fuzzy with
// transpositions).  It never calls a bleve searcher, collector or analyzer.

import (
	"regexp"
	"strings"
)

type Tri int

const (
	No Tri = iota
	Either
	Yes
)

func (t Tri) String() string { return [...]string{"No", "Either", "Yes"}[t] }

func triOf(b bool) Tri {
	if b {
		return Yes
	}
	return No
}

func triNot(t Tri) Tri { return Yes - t }

func triAnd(a, b Tri) Tri {
	if a < b {
		return a
	}
	return b
}

// levenshtein: plain edit distance (insert, delete, substitute).
func levenshtein(a, b string) int {
	ra, rb := []rune(a), []rune(b)
	prev := make([]int, len(rb)+1)
	cur := make([]int, len(rb)+1)
	for j := range prev {
		prev[j] = j
	}
	for i := 1; i <= len(ra); i++ {
		cur[0] = i
		for j := 1; j <= len(rb); j++ {
			c := 1
			if ra[i-1] == rb[j-1] {
				c = 0
			}
			cur[j] = min3(prev[j]+1, cur[j-1]+1, prev[j-1]+c)
		}
		prev, cur = cur, prev
	}
	return prev[len(rb)]
}

// damerau: optimal string alignment distance (adjacent transposition = 1).
func damerau(a, b string) int {
	ra, rb := []rune(a), []rune(b)
	d := make([][]int, len(ra)+1)
	for i := range d {
		d[i] = make([]int, len(rb)+1)
		d[i][0] = i
	}
	for j := 0; j <= len(rb); j++ {
		d[0][j] = j
	}
	for i := 1; i <= len(ra); i++ {
		for j := 1; j <= len(rb); j++ {
			c := 1
			if ra[i-1] == rb[j-1] {
				c = 0
			}
			d[i][j] = min3(d[i-1][j]+1, d[i][j-1]+1, d[i-1][j-1]+c)
			if i > 1 && j > 1 && ra[i-1] == rb[j-2] && ra[i-2] == rb[j-1] {
				if v := d[i-2][j-2] + 1; v < d[i][j] {
					d[i][j] = v
				}
			}
		}
	}
	return d[len(ra)][len(rb)]
}

func min3(a, b, c int) int {
	if b < a {
		a = b
	}
	if c < a {
		a = c
	}
	return a
}

// fuzzyTerm: does token tok match fuzzy(term, k, prefixLen)?
func fuzzyTerm(tok, term string, k, plen int) Tri {
	if plen > 0 {
		if plen > len(term) {
			plen = len(term)
		}
		if !strings.HasPrefix(tok, term[:plen]) {
			return No
		}
	}
	if levenshtein(tok, term) <= k {
		return Yes
	}
	if damerau(tok, term) > k {
		return No
	}
	return Either
}

func anyTok(toks []string, f func(string) Tri) Tri {
	r := No
	for _, x := range toks {
		if v := f(x); v > r {
			r = v
		}
	}
	return r
}

func wildcardToRegexp(w string) string {
	var sb strings.Builder
	sb.WriteString("^")
	for _, r := range w {
		switch r {
		case '*':
			sb.WriteString(".*")
		case '?':
			sb.WriteString(".")
		default:
			sb.WriteString(regexp.QuoteMeta(string(r)))
		}
	}
	sb.WriteString("$")
	return sb.String()
}

func analyzeQueryText(field, text string) []string {
	if field == "k" || strings.HasPrefix(field, "k") {
		return []string{text} // keyword analyzer: one token (also for "")
	}
	return strings.Fields(text)
}

func phraseMatch(elems [][]string, terms []string) bool {
	if len(terms) == 0 {
		return false
	}
	for _, toks := range elems {
		for p := 0; p+len(terms) <= len(toks); p++ {
			ok := true
			for i, w := range terms {
				if toks[p+i] != w {
					ok = false
					break
				}
			}
			if ok {
				return true
			}
		}
	}
	return false
}

func inRangeS(v string, q *Q) bool {
	imin, imax := true, false
	if q.InclMin != nil {
		imin = *q.InclMin
	}
	if q.InclMax != nil {
		imax = *q.InclMax
	}
	if q.SMin != nil && *q.SMin != "" {
		if v < *q.SMin || v == *q.SMin && !imin {
			return false
		}
	}
	if q.SMax != nil && *q.SMax != "" {
		if v > *q.SMax || v == *q.SMax && !imax {
			return false
		}
	}
	return true
}

func inRangeF(v float64, min, max *float64, imn, imx *bool) bool {
	imin, imax := true, false
	if imn != nil {
		imin = *imn
	}
	if imx != nil {
		imax = *imx
	}
	if min != nil && (v < *min || v == *min && !imin) {
		return false
	}
	if max != nil && (v > *max || v == *max && !imax) {
		return false
	}
	return true
}

func inRangeI(v int64, min, max *int64, imn, imx *bool) bool {
	imin, imax := true, false
	if imn != nil {
		imin = *imn
	}
	if imx != nil {
		imax = *imx
	}
	if min != nil && (v < *min || v == *min && !imin) {
		return false
	}
	if max != nil && (v > *max || v == *max && !imax) {
		return false
	}
	return true
}

// Eval evaluates q on document (id, d).
func Eval(q *Q, id string, d Doc) Tri {
	switch q.Kind {
	case "all":
		return Yes
	case "none":
		return No
	case "term":
		return anyTok(d.AllTokens(q.Field), func(x string) Tri { return triOf(x == q.Text) })
	case "prefix":
		return anyTok(d.AllTokens(q.Field), func(x string) Tri { return triOf(strings.HasPrefix(x, q.Text)) })
	case "wildcard":
		re := regexp.MustCompile(wildcardToRegexp(q.Text))
		return anyTok(d.AllTokens(q.Field), func(x string) Tri { return triOf(re.MatchString(x)) })
	case "regexp":
		re := regexp.MustCompile("^(?:" + q.Text + ")$")
		return anyTok(d.AllTokens(q.Field), func(x string) Tri { return triOf(re.MatchString(x)) })
	case "fuzzy":
		return anyTok(d.AllTokens(q.Field), func(x string) Tri { return fuzzyTerm(x, q.Text, q.Fuzz, q.Prefix) })
	case "match":
		words := analyzeQueryText(q.Field, q.Text)
		if len(words) == 0 {
			return No
		}
		toks := d.AllTokens(q.Field)
		yes, maybe := 0, 0
		for _, w := range words {
			var v Tri
			if q.Fuzz > 0 {
				v = anyTok(toks, func(x string) Tri { return fuzzyTerm(x, w, q.Fuzz, q.Prefix) })
			} else {
				v = anyTok(toks, func(x string) Tri { return triOf(x == w) })
			}
			if v == Yes {
				yes++
			} else if v == Either {
				maybe++
			}
		}
		need := 1
		if q.And {
			need = len(words)
		}
		switch {
		case yes >= need:
			return Yes
		case yes+maybe >= need:
			return Either
		}
		return No
	case "matchphrase":
		return triOf(phraseMatch(d.Tokens(q.Field), analyzeQueryText(q.Field, q.Text)))
	case "phrase":
		return triOf(phraseMatch(d.Tokens(q.Field), q.Terms))
	case "termrange":
		return anyTok(d.AllTokens(q.Field), func(x string) Tri { return triOf(inRangeS(x, q)) })
	case "numrange":
		f := d[q.Field]
		if f == nil {
			return No
		}
		for _, v := range f.N {
			if inRangeF(v, q.NMin, q.NMax, q.InclMin, q.InclMax) {
				return Yes
			}
		}
		return No
	case "daterange":
		f := d[q.Field]
		if f == nil {
			return No
		}
		for _, v := range f.D {
			if inRangeI(v, q.DMin, q.DMax, q.InclMin, q.InclMax) {
				return Yes
			}
		}
		return No
	case "bool":
		f := d[q.Field]
		if f == nil {
			return No
		}
		for _, v := range f.B {
			if v == q.B {
				return Yes
			}
		}
		return No
	case "docid":
		for _, x := range q.IDs {
			if x == id {
				return Yes
			}
		}
		return No
	case "conj":
		r := Yes
		for _, c := range q.Children {
			r = triAnd(r, Eval(c, id, d))
		}
		return r
	case "disj":
		return atLeast(q.Children, id, d, q.Min, 1)
	case "boolean":
		r := Yes
		for _, c := range q.Must {
			r = triAnd(r, Eval(c, id, d))
		}
		for _, c := range q.MustNot {
			r = triAnd(r, triNot(Eval(c, id, d)))
		}
		if q.Filter != nil {
			r = triAnd(r, Eval(q.Filter, id, d))
		}
		if len(q.Should) > 0 {
			floor := 0
			if len(q.Must) == 0 {
				floor = 1 // without a must clause the should clauses select the candidates
			}
			r = triAnd(r, atLeast(q.Should, id, d, q.Min, floor))
		}
		return r
	}
	panic("harness: refeval: bad kind " + q.Kind)
}

func atLeast(cs []*Q, id string, d Doc, min, floor int) Tri {
	if min < floor {
		min = floor
	}
	yes, maybe := 0, 0
	for _, c := range cs {
		switch Eval(c, id, d) {
		case Yes:
			yes++
		case Either:
			maybe++
		}
	}
	switch {
	case yes >= min:
		return Yes
	case yes+maybe >= min:
		return Either
	}
	return No
}
