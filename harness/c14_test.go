//go:build verif

package harness

import (
	"fmt"
	"io"
	"path/filepath"
	"strconv"
	"sync"
	"sync/atomic"
	"testing"
	"time"

	"github.com/blevesearch/bleve/v2"
	index "github.com/blevesearch/bleve_index_api"
	"pgregory.net/rapid"
)

// C14 — an online backup is a consistent point-in-time copy.

// writer w owns documents w<w>-0..3 and the internal key w<w>; its j-th batch rewrites all
// four documents with n=j and text derived from (w,j,i), plus churn on shared ids.
func ownedDoc(w, j, i int) Doc {
	word := Vocab[(w+j+i)%len(Vocab)] + " " + Vocab[(j*3+i)%len(Vocab)]
	return Doc{"t": {S: []string{word}}, "n": {N: []float64{float64(j)}, NS: []string{strconv.Itoa(j)}}}
}

func ownedIDs(w int) []string {
	var ids []string
	for i := 0; i < 4; i++ {
		ids = append(ids, fmt.Sprintf("w%d-%d", w, i))
	}
	return ids
}

type seqWriter struct {
	w         int
	nbatches  int
	acked     atomic.Int64
	submitted atomic.Int64
	churn     [][]Op
	paceUS    int // pause between batches
}

func (sw *seqWriter) run(idx bleve.Index, errs chan<- error) {
	for j := 1; j <= sw.nbatches; j++ {
		b := idx.NewBatch()
		for i, id := range ownedIDs(sw.w) {
			if err := b.Index(id, ownedDoc(sw.w, j, i).ToBleve()); err != nil {
				errs <- err
				return
			}
		}
		for _, op := range sw.churn[j-1] {
			if op.Kind == OpIndex {
				_ = b.Index(op.ID, op.Doc.ToBleve())
			} else {
				b.Delete(op.ID)
			}
		}
		b.SetInternal([]byte(fmt.Sprintf("w%d", sw.w)), []byte(strconv.Itoa(j)))
		sw.submitted.Store(int64(j))
		if err := idx.Batch(b); err != nil {
			errs <- fmt.Errorf("writer %d batch %d: %w", sw.w, j, err)
			return
		}
		sw.acked.Store(int64(j))
		if sw.paceUS > 0 {
			time.Sleep(time.Duration(sw.paceUS) * time.Microsecond)
		}
	}
	errs <- nil
}

// checkWriterPrefix verifies that idx holds writer w's state after exactly one batch p
// and returns p.
func checkWriterPrefix(idx bleve.Index, w int) (int, string) {
	v, err := idx.GetInternal([]byte(fmt.Sprintf("w%d", w)))
	if err != nil {
		return 0, "GetInternal: " + err.Error()
	}
	p := 0
	if v != nil {
		if p, err = strconv.Atoi(string(v)); err != nil {
			return 0, fmt.Sprintf("malformed internal value %q", v)
		}
	}
	for i, id := range ownedIDs(w) {
		d, err := idx.Document(id)
		if err != nil {
			return p, fmt.Sprintf("Document(%s): %v", id, err)
		}
		if p == 0 {
			if d != nil {
				return p, fmt.Sprintf("internal key says no batch of writer %d is in, but %s exists: %v", w, id, StoredFieldsOf(d))
			}
			continue
		}
		if d == nil {
			return p, fmt.Sprintf("internal key says batch %d of writer %d is in, but %s is missing (torn batch)", p, w, id)
		}
		got := fmt.Sprint(StoredFieldsOf(d))
		want := fmt.Sprint(ownedDoc(w, p, i).ExpectedStoredFields())
		if got != want {
			return p, fmt.Sprintf("writer %d is at batch %d by its internal key, but %s holds %s, batch %d wrote %s (torn or stale batch)", w, p, id, got, p, want)
		}
	}
	// the same through a search: all four documents carry n=p
	if p > 0 {
		f := float64(p)
		tr := true
		q := bleve.NewNumericRangeInclusiveQuery(&f, &f, &tr, &tr)
		q.SetField("n")
		dq := bleve.NewDocIDQuery(ownedIDs(w))
		res, err := idx.Search(bleve.NewSearchRequest(bleve.NewConjunctionQuery(q, dq)))
		if err != nil {
			return p, "search: " + err.Error()
		}
		if res.Total != 4 {
			return p, fmt.Sprintf("search for writer %d's documents with n=%d returns %d hits, want 4", w, p, res.Total)
		}
	}
	return p, ""
}

var c14Events = map[string]string{"persist": "intro.persist.afterSwap", "merge": "intro.merge.afterSwap", "purge": "purge.end"}

// slowDirectory holds back the creation of every destination file: for a fixed time, or until
// a number of background events (persist or merge introductions, purge passes) has happened
// since the previous file (capped, because the index may have gone quiet).
type slowDirectory struct {
	index.Directory
	d     time.Duration
	event string
	n     int
}

func (s slowDirectory) GetWriter(filePath string) (io.WriteCloser, error) {
	if s.event != "" {
		start := HookCounts()[s.event]
		deadline := time.Now().Add(150 * time.Millisecond)
		for HookCounts()[s.event] < start+s.n && time.Now().Before(deadline) {
			time.Sleep(200 * time.Microsecond)
		}
	}
	time.Sleep(s.d)
	return s.Directory.GetWriter(filePath)
}

const c14Rule = "rapid: 1-3 concurrent writers on a scorch disk index (each batch rewrites the writer's four documents with n=j and sets its internal key to j, plus churn on shared ids), drawn persister/merge options, numSnapshotsToKeep=1, seeded delay plan at lock-free hook points; 1-3 CopyTo calls started at generated moments (after the k-th ack of a writer or a delay), into a FileSystemDirectory or a wrapper of it that holds back every destination file by a drawn 0.1-30 ms and/or until 1-2 further persist introductions, merge introductions or purge passes happened (150 ms cap), copies optionally started after the n-th persist/merge/purge, writers optionally paced, so that the copy stays open across persists, merges, purges and other backups; " +
	"oracle per copy: CopyTo returns nil, bleve.Open(dst) succeeds, for every writer the copy holds exactly one batch p_w (internal key, all four documents and a search agree: no torn batch) with ack_w(at copy start) <= p_w <= submitted_w(at copy end), the copy accepts a write and reopens; the source ends equal to the model of the whole history; " +
	"non-trivial = a persist, merge introduction or purge happened between copy start and end and >=1 batch was acknowledged during the copy" +
	"; phased mode: one generated sequence of 4-24 operations (batch, hold/release the persister at persist.begin, settle = wait until persisted and a purge pass ran, forced merge, start a backup = CopyTo takes its reader and blocks at its first destination file, finish a chosen open backup) with up to 3 open backups, same oracle per backup; there non-trivial = >=1 backup, >=1 batch and a forced merge or settle in the sequence; life-cycle mode: a fixed walk [p0 batch(es) X while the persister is parked, p1 one persister round, p2 batch Y, p3 settle, p4 forced merge, p5 settle, p6 batch Z + settle, p7] with 1-3 backups that take their reader at a drawn boundary and copy at a drawn later boundary (persister parked at persist.afterNotifyWaiters or persist.begin, drawn merge/persist options, numSnapshotsToKeep 1-2), same oracle; there non-trivial = a backup stays open across >=3 steps"

func TestC14Backup(t *testing.T) {
	ev := Ev("C14")
	ev.SetRule(c14Rule)
	checkPropN(t, "C14", 30, func(t *rapid.T) {
		cfg := genC03Config(t)
		cfg.SegVersion = rapid.SampledFrom([]int{0, 0, 0, 11, 13, 15, 16}).Draw(t, "segv") // the backup must be readable with the source's segment format
		cfg.KeepSnapshots = 1
		nw := rapid.IntRange(1, 3).Draw(t, "nwriters")
		var writers []*seqWriter
		for w := 0; w < nw; w++ {
			sw := &seqWriter{w: w, nbatches: rapid.IntRange(8, 40).Draw(t, "nbatches")}
			if rapid.Bool().Draw(t, "paced") {
				sw.paceUS = rapid.IntRange(100, 3000).Draw(t, "paceUS")
			}
			for j := 0; j < sw.nbatches; j++ {
				var churn []Op
				for k, n := 0, rapid.IntRange(0, 2).Draw(t, "nchurn"); k < n; k++ {
					id := rapid.SampledFrom(DocIDs[:4]).Draw(t, "churnid")
					if rapid.Bool().Draw(t, "churndel") {
						churn = append(churn, Op{Kind: OpDelete, ID: id})
					} else {
						churn = append(churn, Op{Kind: OpIndex, ID: id, Doc: Doc{"t": {S: []string{genWords(t, "cw", 1, 2)}}}})
					}
				}
				sw.churn = append(sw.churn, churn)
			}
			writers = append(writers, sw)
		}
		ncopies := rapid.IntRange(1, 3).Draw(t, "ncopies")
		type copyPlan struct {
			AfterAck    int    `json:"after_ack"` // of writer 0
			DelayUS     int    `json:"delay_us"`
			FileDelayUS int    `json:"file_delay_us"`         // the destination directory is this slow per file
			StartEvent  string `json:"start_event,omitempty"` // start after StartCount persists / merges / purges instead
			StartCount  int    `json:"start_count,omitempty"`
			HoldEvent   string `json:"hold_event,omitempty"` // every destination file waits for HoldCount such events
			HoldCount   int    `json:"hold_count,omitempty"`
		}
		var plans []copyPlan
		for i := 0; i < ncopies; i++ {
			pl := copyPlan{AfterAck: rapid.IntRange(0, writers[0].nbatches).Draw(t, "afterAck"), DelayUS: rapid.IntRange(0, 3000).Draw(t, "delayUS")}
			if rapid.Bool().Draw(t, "slowdst") {
				// a slow destination keeps the copy open across persists, merges, purges and
				// other, faster, backups
				pl.FileDelayUS = rapid.IntRange(100, 30000).Draw(t, "fileDelayUS")
			}
			if rapid.IntRange(0, 2).Draw(t, "startOnEvent") == 0 {
				pl.StartEvent = rapid.SampledFrom([]string{"persist", "merge", "purge"}).Draw(t, "startEvent")
				pl.StartCount = rapid.IntRange(1, 6).Draw(t, "startCount")
			}
			if rapid.IntRange(0, 2).Draw(t, "holdOnEvent") == 0 {
				pl.HoldEvent = rapid.SampledFrom([]string{"persist", "merge", "purge", "purge"}).Draw(t, "holdEvent")
				pl.HoldCount = rapid.IntRange(1, 2).Draw(t, "holdCount")
			}
			plans = append(plans, pl)
		}
		seed := rapid.Uint64().Draw(t, "delaySeed")
		dir := TempDir(t)
		InstallHook(HookPlan{Mode: "delay", DelaySeed: seed, DelayMaxUS: 1000})
		defer ClearHook()
		idx, err := cfg.Create(filepath.Join(dir, "src"), WorldMapping())
		if err != nil {
			t.Fatalf("create: %v", err)
		}
		closed := false
		errs := make(chan error, nw)
		var wg sync.WaitGroup
		defer func() {
			wg.Wait()
			if !closed {
				idx.Close()
			}
		}()
		for _, sw := range writers {
			wg.Add(1)
			go func(sw *seqWriter) { defer wg.Done(); sw.run(idx, errs) }(sw)
		}
		type copyResult struct {
			dst        string
			ackStart   []int64
			submitEnd  []int64
			background int
			err        error
			startedAt  time.Time
			endedAt    time.Time
		}
		results := make([]*copyResult, ncopies)
		var cwg sync.WaitGroup
		for ci, pl := range plans {
			cwg.Add(1)
			go func(ci int, pl copyPlan) {
				defer cwg.Done()
				deadline := time.Now().Add(60 * time.Second)
				if pl.StartEvent != "" {
					allDone := func() bool {
						for _, sw := range writers {
							if sw.acked.Load() < int64(sw.nbatches) {
								return false
							}
						}
						return true
					}
					for HookCounts()[c14Events[pl.StartEvent]] < pl.StartCount && !allDone() && time.Now().Before(deadline) {
						time.Sleep(200 * time.Microsecond)
					}
				} else {
					for writers[0].acked.Load() < int64(pl.AfterAck) && time.Now().Before(deadline) {
						time.Sleep(200 * time.Microsecond)
					}
				}
				time.Sleep(time.Duration(pl.DelayUS) * time.Microsecond)
				r := &copyResult{dst: filepath.Join(dir, fmt.Sprintf("copy%d", ci))}
				before := HookCounts()
				r.startedAt = time.Now()
				for _, sw := range writers {
					r.ackStart = append(r.ackStart, sw.acked.Load())
				}
				var dst index.Directory = bleve.FileSystemDirectory(r.dst)
				if pl.FileDelayUS > 0 || pl.HoldEvent != "" {
					dst = slowDirectory{dst, time.Duration(pl.FileDelayUS) * time.Microsecond, c14Events[pl.HoldEvent], pl.HoldCount}
				}
				r.err = idx.(bleve.IndexCopyable).CopyTo(dst)
				r.endedAt = time.Now()
				for _, sw := range writers {
					r.submitEnd = append(r.submitEnd, sw.submitted.Load())
				}
				after := HookCounts()
				for _, p := range []string{"intro.persist.afterSwap", "intro.merge.afterSwap", "purge.end"} {
					r.background += after[p] - before[p]
				}
				results[ci] = r
			}(ci, pl)
		}
		cwg.Wait()
		wg.Wait()
		for range writers {
			if err := <-errs; err != nil {
				t.Fatalf("config %s: %v", cfg, err)
			}
		}
		// the copies
		for ci, r := range results {
			if r.err != nil {
				t.Fatalf("config %s: CopyTo #%d failed: %v", cfg, ci, r.err)
			}
			cidx, err := bleve.Open(r.dst)
			if err != nil {
				t.Fatalf("config %s: the backup #%d does not open: %v", cfg, ci, err)
			}
			ackedDuring := false
			for w := range writers {
				p, msg := checkWriterPrefix(cidx, w)
				if msg != "" {
					cidx.Close()
					t.Fatalf("config %s, backup #%d (started after ack %d of writer 0): %s", cfg, ci, plans[ci].AfterAck, msg)
				}
				if int64(p) < r.ackStart[w] || int64(p) > r.submitEnd[w] {
					cidx.Close()
					t.Fatalf("config %s, backup #%d: writer %d is at batch %d in the copy, but %d batches were acknowledged before the copy began and %d submitted when it ended", cfg, ci, w, p, r.ackStart[w], r.submitEnd[w])
				}
				if r.submitEnd[w] > r.ackStart[w] {
					ackedDuring = true
				}
			}
			// the copy is a working index
			if err := cidx.Index("probe", map[string]interface{}{"t": "x"}); err != nil {
				cidx.Close()
				t.Fatalf("backup #%d rejects a write: %v", ci, err)
			}
			// (the copy inherits the source's configuration: with unsafe_batch a clean Close
			// does not flush, so wait for the persister as C01 does)
			if err := WaitPersisted(cidx, 30*time.Second); err != nil {
				cidx.Close()
				t.Fatalf("backup #%d: %v", ci, err)
			}
			if err := cidx.Close(); err != nil {
				t.Fatalf("backup #%d close: %v", ci, err)
			}
			cidx, err = bleve.Open(r.dst)
			if err != nil {
				t.Fatalf("backup #%d does not reopen after a write: %v", ci, err)
			}
			if d, _ := cidx.Document("probe"); d == nil {
				cidx.Close()
				t.Fatalf("backup #%d lost the document written to it", ci)
			}
			cidx.Close()
			nt := r.background >= 1 && ackedDuring
			canon := map[string]interface{}{"cfg": cfg, "writers": nw, "plans": plans, "seed": seed, "copy": ci, "nb": writers[0].nbatches}
			smp := map[string]interface{}{"cfg": cfg, "writers": nw, "copy_plan": plans[ci], "acked_at_start": r.ackStart, "submitted_at_end": r.submitEnd, "background_steps_during_copy": r.background}
			cl := []string{fmt.Sprintf("writers:%d", nw)}
			if plans[ci].FileDelayUS > 0 {
				cl = append(cl, "slow-destination")
			}
			if plans[ci].HoldEvent != "" {
				cl = append(cl, "destination-waits-for-"+plans[ci].HoldEvent)
			}
			if plans[ci].StartEvent != "" {
				cl = append(cl, "started-after-a-"+plans[ci].StartEvent)
			}
			for cj, o := range results {
				if cj != ci && o.startedAt.Before(r.startedAt) && o.endedAt.After(r.startedAt) && o.endedAt.Before(r.endedAt) {
					cl = append(cl, "another-backup-started-earlier-and-ended-during-this-one")
					break
				}
			}
			ev.Case(nt, canon, smp, cl...)
		}
		// the source is unaffected
		for w, sw := range writers {
			p, msg := checkWriterPrefix(idx, w)
			if msg != "" || p != sw.nbatches {
				t.Fatalf("config %s: source index after all batches and %d backups: writer %d at batch %d of %d: %s", cfg, ncopies, w, p, sw.nbatches, msg)
			}
		}
		if err := idx.Close(); err != nil {
			t.Fatalf("close source: %v", err)
		}
		closed = true
	})
}
