package harness

import (
	"fmt"
	"strings"
	"testing"
	"time"

	"github.com/blevesearch/bleve/v2"
	"pgregory.net/rapid"
)

// C05 — merging and persisting never change what any search returns.

type Req struct {
	Q         *Q       `json:"-"`
	QS        string   `json:"query"`
	Sort      []string `json:"sort"`
	Size      int      `json:"size"`
	From      int      `json:"from"`
	Fields    bool     `json:"fields,omitempty"`
	Locations bool     `json:"locations,omitempty"`
	Highlight bool     `json:"highlight,omitempty"`
	ScoreNone bool     `json:"score_none,omitempty"`
	Facets    []FReq   `json:"facets,omitempty"`
}

func (r Req) Bleve() *bleve.SearchRequest {
	req := bleve.NewSearchRequestOptions(r.Q.Bleve(), r.Size, r.From, false)
	req.SortBy(r.Sort)
	if r.Fields {
		req.Fields = []string{"*"}
	}
	req.IncludeLocations = r.Locations
	if r.Highlight {
		req.Highlight = bleve.NewHighlightWithStyle("html")
	}
	if r.ScoreNone {
		req.Score = "none"
	}
	for _, f := range r.Facets {
		req.AddFacet(f.Name, f.Bleve())
	}
	return req
}

func (r Req) ScoreSorted() bool {
	for _, s := range r.Sort {
		if strings.TrimPrefix(s, "-") == "_score" {
			return true
		}
	}
	return false
}

var reqSorts = [][]string{{"-_score", "_id"}, {"-_score", "_id"}, {"_id"}, {"-_id"}, {"k", "_id"}, {"-n", "_id"}, {"d", "-_id"}, {"_score", "_id"}}

func GenReq(t *rapid.T, label string, g QGen, depth int, nums []float64) Req {
	r := Req{Q: g.Tree(t, label+".q", depth)}
	rare := rapid.IntRange(0, 5).Draw(t, label+".rareTerms") == 0
	if rare {
		r.Q = g.RareTerms(t, label+".rare")
	}
	r.QS = r.Q.String()
	r.Sort = rapid.SampledFrom(reqSorts).Draw(t, label+".sort")
	r.Size = 50
	r.Fields = rapid.Bool().Draw(t, label+".fields")
	r.Locations = rapid.Bool().Draw(t, label+".locations")
	r.Highlight = rapid.IntRange(0, 2).Draw(t, label+".highlight") == 0
	r.ScoreNone = rapid.IntRange(0, 3).Draw(t, label+".scorenone") == 0
	if rare {
		// unadorned evaluation needs no scores and no locations
		r.ScoreNone = rapid.IntRange(0, 3).Draw(t, label+".rareScored") != 0
		if r.ScoreNone {
			r.Locations, r.Highlight = false, false
		}
	}
	nf := rapid.IntRange(0, 2).Draw(t, label+".nfacets")
	for i := 0; i < nf; i++ {
		f := GenFacet(t, fmt.Sprintf("%s.f%d", label, i), fmt.Sprintf("f%d", i), nums, c10Dates, func(FReq) int { return 3 })
		r.Facets = append(r.Facets, f)
	}
	return r
}

type c05Layout struct {
	Name  string    `json:"name"`
	Cfg   Config    `json:"cfg"`
	Steps []c01Step `json:"-"`
	Post  []string  `json:"post,omitempty"`
	NStep int       `json:"nsteps"`
}

func flattenOps(steps []c01Step) []Op {
	var flat []Op
	for _, s := range steps {
		flat = append(flat, s.Ops...)
	}
	return flat
}

func genC05Layout(t *rapid.T, label string, steps []c01Step) c05Layout {
	flat := flattenOps(steps)
	kind := rapid.SampledFrom([]string{"mem-singletons", "mem-onebatch", "disk", "disk-merged", "disk-reopened", "mem-cuts", "mem-version", "disk-version", "mem-asis", "disk-merge-mid"}).Draw(t, label+".layout")
	l := c05Layout{Name: kind}
	singles := func() []c01Step {
		var out []c01Step
		for _, o := range flat {
			out = append(out, c01Step{Kind: "single", Ops: []Op{o}})
		}
		return out
	}
	cuts := func() []c01Step {
		var out []c01Step
		rest := flat
		for len(rest) > 0 {
			n := rapid.IntRange(1, len(rest)).Draw(t, label+".cut")
			out = append(out, c01Step{Kind: "batch", Ops: rest[:n]})
			rest = rest[n:]
		}
		return out
	}
	switch kind {
	case "mem-singletons":
		l.Cfg, l.Steps = Config{Engine: EngScorchMem}, singles()
	case "mem-onebatch":
		l.Cfg, l.Steps = Config{Engine: EngScorchMem}, []c01Step{{Kind: "batch", Ops: flat}}
	case "mem-asis":
		l.Cfg, l.Steps = Config{Engine: EngScorchMem}, steps
	case "mem-cuts":
		l.Cfg, l.Steps = Config{Engine: EngScorchMem}, cuts()
	case "mem-version":
		l.Cfg = Config{Engine: EngScorchMem, SegVersion: rapid.SampledFrom([]int{11, 12, 13, 14, 15, 16, 17}).Draw(t, label+".segv")}
		l.Steps = steps
	case "disk-merge-mid":
		// a forced merge in the middle of the history, the rest left unmerged: a merged segment
		// (with the encodings only merging produces, such as 1-hit postings lists) is followed
		// by fresh segments
		l.Cfg = Config{Engine: EngScorchDisk, MaxSegPerTier: 100, FloorSegSize: 1, SegPerMerge: 10}
		base := steps
		if rapid.Bool().Draw(t, label+".singles") {
			base = singles()
		}
		cut := 0
		if len(base) > 1 {
			cut = rapid.IntRange(1, len(base)-1).Draw(t, label+".mergeAt")
		}
		l.Steps = append(append(append([]c01Step{}, base[:cut]...), c01Step{Kind: "merge"}), base[cut:]...)
		l.Post = []string{"wait"}
	case "disk", "disk-merged", "disk-reopened", "disk-version":
		l.Cfg = Config{Engine: EngScorchDisk}
		GenScorchDiskOpts(t, label, &l.Cfg)
		// unsafe batches return before they are persisted, so several in-memory segments
		// pile up for one persister round (the multi-batch in-memory merge path)
		l.Cfg.UnsafeBatch = rapid.Bool().Draw(t, label+".unsafe")
		if kind == "disk-version" {
			l.Cfg.SegVersion = rapid.SampledFrom([]int{11, 12, 13, 14, 15, 16, 17}).Draw(t, label+".segv")
		}
		if rapid.Bool().Draw(t, label+".singles") {
			l.Steps = singles()
		} else {
			l.Steps = steps
		}
		l.Post = []string{"wait"}
		if kind == "disk-merged" {
			l.Post = []string{"merge"}
		}
		if kind == "disk-reopened" {
			l.Post = []string{"reopen"}
			if rapid.Bool().Draw(t, label+".keepSegments") {
				// keep the segments apart until the reopen: what is read back then is one
				// deletion bitmap per segment, not a merged segment without deletions
				l.Cfg.MaxSegPerTier, l.Cfg.FloorSegSize, l.Cfg.SegPerMerge = 100, 1, 10
				l.Cfg.Workers, l.Cfg.MaxMemMerge = 0, 0
			}
		}
		if rapid.IntRange(0, 3).Draw(t, label+".settle") == 0 {
			l.Post = append(l.Post, "settle")
		}
	}
	if len(l.Steps) == 0 {
		l.Steps = []c01Step{{Kind: "batch"}}
	}
	l.NStep = len(l.Steps)
	return l
}

func buildC05Layout(t *rapid.T, l c05Layout) *Corpus {
	c := ApplyCorpus(t, l.Cfg, l.Steps, CorpusOpts{})
	for _, p := range l.Post {
		switch p {
		case "wait":
			if err := WaitPersisted(c.Idx, 30*time.Second); err != nil {
				t.Fatalf("layout %s: %v", l.Name, err)
			}
		case "settle":
			// best effort: gives background merges a chance to run; the stats never
			// report "idle" for an index that was reopened and not written to
			_ = WaitQuiet(c.Idx, 300*time.Millisecond)
		case "merge":
			if err := ForceMerge1(c.Idx); err != nil {
				t.Fatalf("layout %s: force merge: %v", l.Name, err)
			}
		case "reopen":
			if err := WaitPersisted(c.Idx, 30*time.Second); err != nil {
				t.Fatalf("layout %s: %v", l.Name, err)
			}
			if err := c.Idx.Close(); err != nil {
				t.Fatalf("layout %s: close: %v", l.Name, err)
			}
			c.Idx = nil
			idx, err := l.Cfg.Reopen(c.Dir)
			if err != nil {
				t.Fatalf("layout %s: reopen: %v", l.Name, err)
			}
			c.Idx = idx
		}
	}
	return c
}

func TestC05Layouts(t *testing.T) {
	ev := Ev("C05")
	ev.SetRule("rapid: one generated history (index/delete ops over 8 ids); 2-4 physical layouts of it drawn from {memory one-op-per-batch, memory single batch, memory as generated, memory random cuts, other zap version 11-17, disk with drawn persister/merge options after persist, after forced merge to one segment, with a forced merge in the middle of the history and fresh segments after it, after close/reopen, after background work settled}; " +
		"5 requests each from (query tree) x sort(score,_id,field+_id) x fields * x include locations x html highlight x 0-2 facets x score none; " +
		"oracle = pairwise equality of normalised results with the first layout (ids, order, Total, MaxScore and scores at 1e-9 relative (1e-6 across zap versions), stored fields, term locations as sets, fragments of single-valued fields, facets); " +
		"merge planner: mergeplan.Plan on 2-10 generated segments (sizes 1-12, some with deletions) under generated options (segments per tier 1-4, max segment size 2..3x the largest segment, tier growth 1-5, 2-8 segments per task, floor 1-8) must assign every segment to at most one task, name only offered segments and produce no empty task (non-trivial = >=2 tasks); forced merge under such options on 3-8 persisted segments must leave DocCount, match-all and term searches unchanged (non-trivial = fewer segments afterwards); " +
		"non-trivial = the layouts differ in segment or tombstone count and the request returns >=2 hits with score>0")
	ev.Assume("order is compared exactly because every sort ends in _id; hits whose scores agree within 10x tolerance may swap under a score sort")
	checkPropN(t, "C05", 150, func(t *rapid.T) {
		steps := genCorpusSteps(t, Config{Engine: EngScorchMem}, CorpusOpts{MaxSteps: 8, Doc: DocGenOpts{Nums: SmallNums, Dates: c10Dates}})
		nl := rapid.IntRange(2, 4).Draw(t, "nlayouts")
		var layouts []c05Layout
		for i := 0; i < nl; i++ {
			layouts = append(layouts, genC05Layout(t, fmt.Sprintf("L%d", i), steps))
		}
		g := QGen{Nums: SmallNums, Dates: c10Dates}
		var reqs []Req
		for i := 0; i < 5; i++ {
			r := GenReq(t, fmt.Sprintf("r%d", i), g, 2, SmallNums)
			if r.Bleve().Validate() != nil {
				continue
			}
			reqs = append(reqs, r)
		}
		results := make([][]*NormResult, len(layouts))
		shapes := make([][2]int, len(layouts))
		var model *State
		for li, l := range layouts {
			c := buildC05Layout(t, l)
			model = c.Model
			segs, del := SegmentShape(c.Idx)
			shapes[li] = [2]int{segs, del}
			for _, r := range reqs {
				ctxDump = func() string { return fmt.Sprintf("C05 layout %s request %s", canonJSON(l), canonJSON(r)) }
				res, err := SearchWatchdog(c.Idx, r.Bleve())
				if err != nil {
					t.Fatalf("layout %s (%s): request %s failed: %v", l.Name, l.Cfg, canonJSON(r), err)
				}
				results[li] = append(results[li], Normalize(res))
			}
			c.Idx.Close()
			c.Idx = nil
		}
		for ri, r := range reqs {
			for li := 1; li < len(layouts); li++ {
				tol := 1e-9
				if layouts[0].Cfg.SegVersion != layouts[li].Cfg.SegVersion {
					tol = 1e-6
				}
				crossVersionFuzzy := false
				if tol == 1e-6 {
					// zap >= v15 reports edit distances and bleve boosts fuzzy candidates by
					// them (t:ab^0.5); older formats cannot, so fuzzy scores legitimately
					// differ between format versions (explained counterexample, DESIGN §6 #10).
					r.Q.Walk(func(x *Q) {
						if (x.Kind == "fuzzy" || x.Kind == "match") && x.Fuzz > 0 {
							crossVersionFuzzy = true
						}
					})
				}
				if _, open := KnownOpen("C05", c05KnownFuzzy); open && (shapes[0][1] > 0 || shapes[li][1] > 0) && c05DeadOnlyExpansion(r.Q, model, steps) {
					// known finding: a prefix or fuzzy clause whose only dictionary candidates are
					// terms of deleted documents is built differently from one without candidates
					// (empty multi-term disjunction vs a TermSearcher for the query term), so scores
					// differ until a merge drops the dead terms.  Scores are not compared for
					// exactly this class; everything else still is.
					ev.Exclude(c05KnownFuzzy)
					crossVersionFuzzy = true
				}
				if crossVersionFuzzy && r.ScoreSorted() {
					ev.Exclude("fuzzy score sort not comparable")
					continue
				}
				o := NormOpts{Tol: tol, ScoreSorted: r.ScoreSorted(), IgnoreSortKeys: r.ScoreSorted(), IgnoreScores: crossVersionFuzzy,
					FragmentFields: func(id string) map[string]bool {
						m := map[string]bool{}
						for name, f := range model.Docs[id] {
							if !f.IsArray {
								m[name] = true
							}
						}
						return m
					}}
				if d := DiffNorm(results[0][ri], results[li][ri], o); d != "" {
					t.Fatalf("request %s\n layout A %s shape(segs,tombstones)=%v\n layout B %s shape=%v\n differ: %s\n docs %v\n history %s", canonJSON(r),
						canonJSON(layouts[0]), shapes[0], canonJSON(layouts[li]), shapes[li], d, model.Docs, c05History(steps))
				}
			}
			differ := false
			for li := 1; li < len(layouts); li++ {
				if shapes[li] != shapes[0] {
					differ = true
				}
			}
			scored := 0
			for _, h := range results[0][ri].Hits {
				if h.Score > 0 {
					scored++
				}
			}
			nt := differ && scored >= 2
			var cl []string
			for _, l := range layouts {
				cl = append(cl, "layout:"+l.Name)
				if l.Cfg.Workers > 1 {
					cl = append(cl, "multi-worker-persister")
				}
			}
			if r.Highlight {
				cl = append(cl, "highlight")
			}
			if len(r.Facets) > 0 {
				cl = append(cl, "facets")
			}
			if r.ScoreSorted() {
				cl = append(cl, "score-sorted")
			}
			canon := map[string]interface{}{"steps": steps, "layouts": layouts, "req": r}
			sample := map[string]interface{}{"nsteps": len(steps), "layouts": layouts, "shapes(segments,tombstones)": shapes, "req": r, "hits": idsOf(results[0][ri])}
			ev.Case(nt, canon, sample, cl...)
		}
	})
}

func c05History(steps []c01Step) string {
	var sb strings.Builder
	for i, s := range steps {
		fmt.Fprintf(&sb, "\n   %d %s:", i, s.Kind)
		for _, o := range s.Ops {
			sb.WriteString(" " + o.String())
		}
	}
	return sb.String()
}

const c05KnownFuzzy = "C05/fuzzy-scores-depend-on-deleted-terms"

// TestC05KnownFuzzy is the deterministic reproducer of the known finding: while it
// reproduces (and is listed as open) the KNOWN-FINDING line is printed; if it is not
// listed it is a violation; once the defect is gone it prints nothing.
func TestC05KnownFuzzy(t *testing.T) {
	D := func(kv ...interface{}) map[string]interface{} {
		m := map[string]interface{}{}
		for i := 0; i < len(kv); i += 2 {
			m[kv[i].(string)] = kv[i+1]
		}
		return m
	}
	score := func(withTombstones bool) float64 {
		idx, err := Config{Engine: EngScorchMem}.Create("", WorldMapping())
		if err != nil {
			t.Fatalf("harness: %v", err)
		}
		defer idx.Close()
		if withTombstones {
			b := idx.NewBatch()
			b.Index("d6", D("d", "2020-01-01T03:04:05Z"))
			b.Index("d2", D("t", "ab"))
			idx.Batch(b)
			idx.Index("d2", D("t", "a"))
		} else {
			b := idx.NewBatch()
			b.Index("d6", D("d", "2020-01-01T03:04:05Z"))
			b.Index("d2", D("t", "a"))
			idx.Batch(b)
		}
		idx.Index("d5", D("t", "b cab cab"))
		q := bleve.NewMatchQuery("cab abd")
		q.SetField("t")
		q.SetFuzziness(1)
		res, err := idx.Search(bleve.NewSearchRequest(q))
		if err != nil || len(res.Hits) != 1 {
			t.Fatalf("harness: reproducer search: %v %v", err, res)
		}
		return res.Hits[0].Score
	}
	a, b := score(true), score(false)
	if floatClose(a, b, 1e-9) {
		return
	}
	if k, open := KnownOpen("C05", c05KnownFuzzy); open {
		ReportKnown(k)
		return
	}
	t.Fatalf("same content, different scores: %v with a tombstoned document holding the term \"ab\", %v without (query match t:\"cab abd\" fuzziness 1)", a, b)
}

// c05DeadOnlyExpansion reports whether q has a prefix / fuzzy leaf that matches no term of
// a live document but matches a term of some document version that the history deleted or
// overwrote (the class of the open known finding).
func c05DeadOnlyExpansion(q *Q, model *State, steps []c01Step) bool {
	tokens := func(docs []Doc, field string) []string {
		var out []string
		for _, d := range docs {
			out = append(out, d.AllTokens(field)...)
		}
		return out
	}
	var live, hist []Doc
	for _, d := range model.Docs {
		live = append(live, d)
	}
	for _, s := range steps {
		for _, op := range s.Ops {
			if op.Kind == OpIndex {
				hist = append(hist, op.Doc)
			}
		}
	}
	found := false
	q.Walk(func(x *Q) {
		var match func(tok string) bool
		switch {
		case x.Kind == "prefix":
			match = func(tok string) bool { return strings.HasPrefix(tok, x.Text) }
		case x.Kind == "fuzzy" && x.Fuzz > 0:
			match = func(tok string) bool { return fuzzyTerm(tok, x.Text, x.Fuzz, x.Prefix) != No }
		case x.Kind == "match" && x.Fuzz > 0:
			for _, w := range analyzeQueryText(x.Field, x.Text) {
				w := w
				m := func(tok string) bool { return fuzzyTerm(tok, w, x.Fuzz, x.Prefix) != No }
				l, h := false, false
				for _, tk := range tokens(live, x.Field) {
					l = l || m(tk)
				}
				for _, tk := range tokens(hist, x.Field) {
					h = h || m(tk)
				}
				if !l && h {
					found = true
				}
			}
			return
		default:
			return
		}
		l, h := false, false
		for _, tk := range tokens(live, x.Field) {
			l = l || match(tk)
		}
		for _, tk := range tokens(hist, x.Field) {
			h = h || match(tk)
		}
		if !l && h {
			found = true
		}
	})
	return found
}
