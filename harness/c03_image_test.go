//go:build verif

package harness

import (
	"fmt"
	"os"
	"path/filepath"
	"strconv"
	"sync/atomic"
	"testing"
	"time"

	"github.com/blevesearch/bleve/v2"
	"pgregory.net/rapid"
)

// C03, crash-image mode.  Killing a process at a (point, k) pair samples the moments a crash
// can happen; this mode constructs the moments that matter and takes the crash image itself:
// the persister is parked, 2-4 unsafe batches pile up in memory, one persister round starts and
// is stopped after its merged in-memory segments are built, 1-2 generated batches are written
// into that window, the round continues and is stopped again at a drawn point after its bolt
// commit - there the index directory is copied (what a crash at that instant leaves on disk,
// page cache included, as with a killed process) and the copy is opened.  The copy must be the
// state after a prefix of the batches that contains every batch whose persisted callback had
// fired when the copy was taken, with no partial batch, and must accept further writes.

func TestC03CrashImage(t *testing.T) {
	ev := Ev("C03")
	checkPropN(t, "C03", 120, func(t *rapid.T) {
		cfg := Config{Engine: EngScorchDisk, UnsafeBatch: true, MaxSegPerTier: 100, FloorSegSize: 1, SegPerMerge: 10}
		cfg.Workers = rapid.SampledFrom([]int{1, 2, 4}).Draw(t, "workers")
		cfg.MaxMemMerge = rapid.SampledFrom([]int{1, 1, 4096}).Draw(t, "maxmem")
		cfg.KeepSnapshots = rapid.SampledFrom([]int{1, 3}).Draw(t, "keep")
		imagePoint := rapid.SampledFrom([]string{"persist.afterBoltCommit", "persist.afterBoltSync", "persist.beforeNotifyWaiters", "persist.afterNotifyWaiters"}).Draw(t, "imagePoint")
		pool := DocIDs[:rapid.SampledFrom([]int{2, 3, 8}).Draw(t, "idpool")]
		dir := TempDir(t)
		idxDir := filepath.Join(dir, "idx")
		g := newPersisterGate("persist.afterNotifyWaiters")
		win, img := &windowGate{}, &windowGate{}
		var extraGate atomic.Pointer[windowGate]
		variant := rapid.SampledFrom([]string{"merge-window", "merge-window", "intro-window"}).Draw(t, "variant")
		if v := os.Getenv("VERIF_DEBUG_VARIANT"); v != "" {
			variant = v
		}
		InstallHook(HookPlan{Mode: "count"})
		SetOnPoint(func(p string) {
			win.onPoint(p)
			img.onPoint(p) // before the extra gate: an image gate armed while the persister stands at the extra gate is for its NEXT visit
			if x := extraGate.Load(); x != nil {
				x.onPoint(p)
			}
			g.onPoint(p)
		})
		idx, err := cfg.Create(idxDir, WorldMapping())
		if err != nil {
			t.Fatalf("create: %v", err)
		}
		defer func() {
			win.open()
			if x := extraGate.Load(); x != nil {
				x.open()
			}
			img.open()
			g.release()
			SetOnPoint(nil)
			ClearHook()
			idx.Close()
		}()
		var batches [][]Op
		var persisted atomic.Int64
		var hist []string
		gen := func(label string) (int, []Op) {
			n := rapid.IntRange(1, 3).Draw(t, label+".nops")
			var ops []Op
			seq := len(batches) + 1
			for j := 0; j < n; j++ {
				id := rapid.SampledFrom(pool).Draw(t, label+".id")
				if rapid.IntRange(0, 3).Draw(t, label+".del") == 0 {
					ops = append(ops, Op{Kind: OpDelete, ID: id})
				} else {
					ops = append(ops, Op{Kind: OpIndex, ID: id, Doc: Doc{"t": {S: []string{genWords(t, label+".w", 1, 2)}}, "n": {N: []float64{float64(seq)}, NS: []string{strconv.Itoa(seq)}}}})
				}
			}
			batches = append(batches, ops)
			hist = append(hist, fmt.Sprintf("%s#%d%v", label, seq, opsBrief(ops)))
			return seq, ops
		}
		apply := func(seq int, ops []Op) error {
			b := idx.NewBatch()
			for _, o := range ops {
				if o.Kind == OpIndex {
					_ = b.Index(o.ID, o.Doc.ToBleve())
				} else {
					b.Delete(o.ID)
				}
			}
			b.SetInternal([]byte("seq"), []byte(strconv.Itoa(seq)))
			b.SetPersistedCallback(func(err error) {
				if err == nil {
					for {
						cur := persisted.Load()
						if int64(seq) <= cur || persisted.CompareAndSwap(cur, int64(seq)) {
							break
						}
					}
				}
			})
			return idx.Batch(b)
		}
		write := func(label string) {
			seq, ops := gen(label)
			if err := apply(seq, ops); err != nil {
				t.Fatalf("batch %d: %v", seq, err)
			}
		}
		// some persisted history, then park the persister at the end of a round
		write("pre")
		if err := WaitPersisted(idx, 30*time.Second); err != nil {
			t.Fatalf("harness: %v", err)
		}
		g.hold()
		write("warm")
		for dl, n := time.Now().Add(2*time.Second), g.parkedCount(); g.parkedCount() == n && time.Now().Before(dl); {
			time.Sleep(200 * time.Microsecond)
		}
		for i, k := 0, rapid.IntRange(2, 4).Draw(t, "memsegs"); i < k; i++ {
			write(fmt.Sprintf("mem%d", i))
		}
		inside, atImage := 0, false
		if variant == "merge-window" {
			win.arm("persist.memMerge.afterFiles")
			img.arm(imagePoint)
			hist = append(hist, "persister-round-starts")
			go g.round(10 * time.Second)
			select {
			case <-win.reached:
				hist = append(hist, "in-memory-merge-built")
				for i, n := 0, rapid.IntRange(1, 2).Draw(t, "inside"); i < n; i++ {
					write(fmt.Sprintf("inside%d", i))
					inside++
				}
				win.open()
			case <-img.reached:
				// no in-memory merge in this configuration: the round went straight to its commit
				atImage = true
			case <-time.After(20 * time.Second):
				t.Fatalf("harness: the persister round reached neither the merge window nor %s (history %v)", imagePoint, hist)
			}
		} else {
			// a batch stands in the introducer (before the root swap) while a persister round
			// starts; the image is taken when the NEXT round begins, i.e. after everything the
			// first round acknowledged
			imagePoint = "persist.begin (next round)"
			win.arm("intro.segment.beforeSwap")
			seq, ops := gen("inintro")
			done := make(chan error, 1)
			go func() { done <- apply(seq, ops) }()
			select {
			case <-win.reached:
			case <-time.After(20 * time.Second):
				t.Fatalf("harness: the batch did not reach the introducer (history %v)", hist)
			}
			begin := &windowGate{}
			begin.arm("persist.begin")
			prev := extraGate.Swap(begin)
			_ = prev
			hist = append(hist, "persister-round-starts-while-a-batch-is-in-the-introducer")
			go g.round(10 * time.Second)
			select {
			case <-begin.reached:
			case <-time.After(20 * time.Second):
				win.open()
				t.Fatalf("harness: the persister round did not start (history %v)", hist)
			}
			win.open()
			if err := <-done; err != nil {
				t.Fatalf("batch %d: %v", seq, err)
			}
			inside++
			img.arm("persist.begin")
			g.release() // the round must run on into the next one
			begin.open()
		}
		if !atImage {
			select {
			case <-img.reached:
			case <-time.After(30 * time.Second):
				t.Fatalf("harness: the persister did not reach %s (config %s, history %v)", imagePoint, cfg, hist)
			}
		}
		// the crash image
		floor := int(persisted.Load())
		submitted := len(batches)
		image := filepath.Join(dir, "image")
		if err := copyDir(idxDir, image); err != nil {
			t.Fatalf("harness: %v", err)
		}
		hist = append(hist, fmt.Sprintf("image-taken-at-%s(persisted callbacks up to %d)", imagePoint, floor))
		if os.Getenv("VERIF_DEBUG_VARIANT") != "" {
			fmt.Printf("DEBUG history %v p-floor=%d\n", hist, floor)
		}
		img.open()
		g.release()
		SetOnPoint(nil) // the image is opened without gates
		desc := func() string { return fmt.Sprintf("config %s, history %v", cfg, hist) }
		ctxDump = desc
		type opened struct {
			idx bleve.Index
			err error
		}
		o := Guard("C03 opening the crash image", func() opened { i, e := cfg.Reopen(image); return opened{i, e} })
		if o.err != nil {
			t.Fatalf("the crash image does not open: %v (%s)", o.err, desc())
		}
		cidx := o.idx
		defer func() {
			if cidx != nil {
				cidx.Close()
			}
		}()
		obs, err := Observe(cidx, DocIDs, []string{"seq"})
		if err != nil {
			t.Fatalf("reading the crash image: %v (%s)", err, desc())
		}
		p, _ := strconv.Atoi(obs.Internal["seq"])
		if p < floor || p > submitted {
			t.Fatalf("the crash image is at batch %d, but the persisted callbacks of batches up to %d had fired and %d were submitted (%s)", p, floor, submitted, desc())
		}
		if d := obs.DiffModel(modelAfter(batches, p, 1), DocIDs, []string{"seq"}); d != "" {
			t.Fatalf("the crash image claims batch %d but does not equal the state after batches 1..%d: %s (%s)", p, p, d, desc())
		}
		// it accepts further writes and reopens
		m2 := modelAfter(batches, p, 1)
		extra := []Op{{Kind: OpIndex, ID: "d0", Doc: Doc{"t": {S: []string{"x"}}}}, {Kind: OpDelete, ID: "d1"}}
		if err := Guard("C03 write to the crash image", func() error { return c03ApplyBatch(cidx, 1000, extra, false) }); err != nil {
			t.Fatalf("write to the crash image: %v (%s)", err, desc())
		}
		m2.Apply(extra)
		m2.Internal["seq"] = "1000"
		if err := WaitPersisted(cidx, 30*time.Second); err != nil {
			t.Fatalf("the opened crash image does not persist a further batch: %v (%s)", err, desc())
		}
		if err := cidx.Close(); err != nil {
			t.Fatalf("close: %v", err)
		}
		cidx = nil
		o = Guard("C03 reopening the crash image", func() opened { i, e := cfg.Reopen(image); return opened{i, e} })
		if o.err != nil {
			t.Fatalf("the crash image does not reopen after a write: %v (%s)", o.err, desc())
		}
		cidx = o.idx
		obs, err = Observe(cidx, DocIDs, []string{"seq"})
		if err != nil {
			t.Fatalf("reading the crash image again: %v", err)
		}
		if d := obs.DiffModel(m2, DocIDs, []string{"seq"}); d != "" {
			t.Fatalf("crash image at batch %d, one more batch, Close and reopen: %s (%s)", p, d, desc())
		}
		cl := []string{"crash-image", "crash-image:" + variant, "image-at:" + imagePoint}
		if inside > 0 {
			cl = append(cl, "batch-introduced-inside-a-background-window")
		}
		ev.Case(inside > 0, map[string]interface{}{"cfg": cfg, "hist": hist, "at": imagePoint},
			map[string]interface{}{"cfg": cfg, "history": hist, "image_taken_at": imagePoint, "recovered_prefix": p, "persisted_callbacks_up_to": floor, "last_submitted": submitted}, cl...)
	})
}
