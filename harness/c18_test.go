package harness

import (
	"fmt"
	"math"
	"sort"
	"strings"
	"testing"

	"github.com/blevesearch/bleve/v2"
	"github.com/blevesearch/bleve/v2/geo"
	"github.com/blevesearch/bleve/v2/mapping"
	"github.com/blevesearch/bleve/v2/search"
	"github.com/blevesearch/bleve/v2/search/query"
	"github.com/blevesearch/geo/s2"
	"pgregory.net/rapid"
)

// C18 — geo point queries match exactly the points inside the shape.

type pt struct{ Lon, Lat float64 }

func c18Mapping() mapping.IndexMapping {
	m := bleve.NewIndexMapping()
	dm := bleve.NewDocumentStaticMapping()
	g := bleve.NewGeoPointFieldMapping()
	g.Store, g.Index, g.DocValues, g.IncludeInAll = true, true, true, false
	dm.AddFieldMappingsAt("g", g)
	m.DefaultMapping = dm
	return m
}

func genPoint(t *rapid.T, label string, near []pt) pt {
	switch rapid.IntRange(0, 9).Draw(t, label+".class") {
	case 0:
		return rapid.SampledFrom([]pt{{180, 0}, {-180, 0}, {0, 90}, {0, -90}, {0, 0}, {179.9999, 10}, {-179.9999, -10}, {45, 89.9999}, {180, 90}, {-180, -90}}).Draw(t, label+".special")
	case 1, 2, 3:
		if len(near) > 0 {
			// close to a shape vertex / centre (inside and outside at small distances)
			c := rapid.SampledFrom(near).Draw(t, label+".near")
			d := rapid.SampledFrom([]float64{1e-5, 1e-3, 0.05, 1, 5}).Draw(t, label+".d")
			p := pt{c.Lon + d*rapid.Float64Range(-1, 1).Draw(t, label+".dx"), c.Lat + d*rapid.Float64Range(-1, 1).Draw(t, label+".dy")}
			if p.Lon > 180 {
				p.Lon -= 360
			}
			if p.Lon < -180 {
				p.Lon += 360
			}
			p.Lat = math.Max(-90, math.Min(90, p.Lat))
			return p
		}
	}
	// uniform on the sphere
	u := rapid.Float64Range(-1, 1).Draw(t, label+".u")
	return pt{rapid.Float64Range(-180, 180).Draw(t, label+".lon"), math.Asin(u) * 180 / math.Pi}
}

// destinationPoint: the point at distance meters from c along the initial bearing (degrees
// clockwise from north) on the mean sphere.
func destinationPoint(c pt, bearingDeg, meters float64) pt {
	const r = 6371008.8
	d, th := meters/r, bearingDeg*math.Pi/180
	la1, lo1 := c.Lat*math.Pi/180, c.Lon*math.Pi/180
	la2 := math.Asin(math.Sin(la1)*math.Cos(d) + math.Cos(la1)*math.Sin(d)*math.Cos(th))
	lo2 := lo1 + math.Atan2(math.Sin(th)*math.Sin(d)*math.Cos(la1), math.Cos(d)-math.Sin(la1)*math.Sin(la2))
	lon := math.Mod(lo2*180/math.Pi+540, 360) - 180
	return pt{lon, math.Max(-90, math.Min(90, la2*180/math.Pi))}
}

func haversineKm(a, b pt, radiusKm float64) float64 {
	la1, la2 := a.Lat*math.Pi/180, b.Lat*math.Pi/180
	dla := la2 - la1
	dlo := (b.Lon - a.Lon) * math.Pi / 180
	h := math.Sin(dla/2)*math.Sin(dla/2) + math.Cos(la1)*math.Cos(la2)*math.Sin(dlo/2)*math.Sin(dlo/2)
	if h > 1 {
		h = 1
	}
	return 2 * radiusKm * math.Asin(math.Sqrt(h))
}

const geoMargin = 2e-6 // degrees: code tolerance 1e-6 + one quantum of the 32-bit encoding

type shape struct {
	Kind   string  `json:"kind"` // box | circle | polygon
	Left   float64 `json:"left,omitempty"`
	Top    float64 `json:"top,omitempty"`
	Right  float64 `json:"right,omitempty"`
	Bottom float64 `json:"bottom,omitempty"`
	Center pt      `json:"center,omitempty"`
	Meters float64 `json:"meters,omitempty"`
	Poly   []pt    `json:"poly,omitempty"`
}

func (s shape) Bleve() query.Query {
	switch s.Kind {
	case "box":
		q := bleve.NewGeoBoundingBoxQuery(s.Left, s.Top, s.Right, s.Bottom)
		q.SetField("g")
		return q
	case "circle":
		q := bleve.NewGeoDistanceQuery(s.Center.Lon, s.Center.Lat, fmt.Sprintf("%gm", s.Meters))
		q.SetField("g")
		return q
	default:
		var ps []geo.Point
		for _, p := range s.Poly {
			ps = append(ps, geo.Point{Lon: p.Lon, Lat: p.Lat})
		}
		q := query.NewGeoBoundingPolygonQuery(ps)
		q.SetField("g")
		return q
	}
}

func segDist(p, a, b pt) float64 {
	dx, dy := b.Lon-a.Lon, b.Lat-a.Lat
	l2 := dx*dx + dy*dy
	tt := 0.0
	if l2 > 0 {
		tt = ((p.Lon-a.Lon)*dx + (p.Lat-a.Lat)*dy) / l2
		tt = math.Max(0, math.Min(1, tt))
	}
	ex, ey := a.Lon+tt*dx-p.Lon, a.Lat+tt*dy-p.Lat
	return math.Hypot(ex, ey)
}

// contains: Yes / No / Either for one point.
func (s shape) contains(p pt) Tri {
	switch s.Kind {
	case "box":
		// latitude band
		latIn := p.Lat > s.Bottom+geoMargin && p.Lat < s.Top-geoMargin
		latOut := p.Lat < s.Bottom-geoMargin || p.Lat > s.Top+geoMargin
		var lonIn, lonOut bool
		if s.Left <= s.Right {
			lonIn = p.Lon > s.Left+geoMargin && p.Lon < s.Right-geoMargin
			lonOut = p.Lon < s.Left-geoMargin || p.Lon > s.Right+geoMargin
		} else { // crosses the date line
			lonIn = p.Lon > s.Left+geoMargin || p.Lon < s.Right-geoMargin
			lonOut = p.Lon < s.Left-geoMargin && p.Lon > s.Right+geoMargin
		}
		// +-180 is one meridian: stay away from judging it when the box edge is there
		if math.Abs(math.Abs(p.Lon)-180) < geoMargin {
			return Either
		}
		switch {
		case latIn && lonIn:
			return Yes
		case latOut || lonOut:
			return No
		}
		return Either
	case "circle":
		dmin := haversineKm(s.Center, p, 6356.752) * 1000
		dmax := haversineKm(s.Center, p, 6378.137) * 1000
		switch {
		case dmax <= s.Meters*(1-0.005)-1:
			return Yes
		case dmin >= s.Meters*(1+0.005)+1:
			return No
		}
		return Either
	default:
		inside := false
		n := len(s.Poly)
		near := false
		for i, j := 0, n-1; i < n; j, i = i, i+1 {
			a, b := s.Poly[i], s.Poly[j]
			if segDist(p, a, b) <= geoMargin*4 {
				near = true
			}
			if (a.Lat > p.Lat) != (b.Lat > p.Lat) && p.Lon < (b.Lon-a.Lon)*(p.Lat-a.Lat)/(b.Lat-a.Lat)+a.Lon {
				inside = !inside
			}
		}
		if near {
			return Either
		}
		return triOf(inside)
	}
}

func genShape(t *rapid.T, label string) (shape, []pt) {
	switch rapid.IntRange(0, 2).Draw(t, label+".kind") {
	case 0:
		s := shape{Kind: "box"}
		switch rapid.IntRange(0, 4).Draw(t, label+".boxclass") {
		case 0: // crossing the date line
			s.Left, s.Right = rapid.Float64Range(150, 179.9).Draw(t, label+".l"), rapid.Float64Range(-179.9, -150).Draw(t, label+".r")
		case 1: // touching a pole
			s.Left, s.Right = rapid.Float64Range(-170, 0).Draw(t, label+".l"), rapid.Float64Range(1, 170).Draw(t, label+".r")
		case 2: // thin
			s.Left = rapid.Float64Range(-170, 170).Draw(t, label+".l")
			s.Right = s.Left + 1e-4
		default:
			s.Left = rapid.Float64Range(-175, 170).Draw(t, label+".l")
			s.Right = s.Left + rapid.Float64Range(0.01, 180-s.Left).Draw(t, label+".w")
		}
		if rapid.IntRange(0, 4).Draw(t, label+".pole") == 0 {
			s.Top, s.Bottom = 90, rapid.Float64Range(40, 89).Draw(t, label+".b")
		} else {
			s.Bottom = rapid.Float64Range(-89, 80).Draw(t, label+".b")
			s.Top = s.Bottom + rapid.Float64Range(0.001, 89-s.Bottom).Draw(t, label+".h")
		}
		return s, []pt{{s.Left, s.Top}, {s.Right, s.Bottom}, {s.Left, s.Bottom}, {s.Right, s.Top}}
	case 1:
		s := shape{Kind: "circle"}
		switch rapid.IntRange(0, 3).Draw(t, label+".cclass") {
		case 0:
			s.Center = pt{rapid.SampledFrom([]float64{179.5, -179.5, 180, -180}).Draw(t, label+".clon"), rapid.Float64Range(-60, 60).Draw(t, label+".clat")}
		case 1:
			s.Center = pt{rapid.Float64Range(-180, 180).Draw(t, label+".clon"), rapid.SampledFrom([]float64{89, -89, 85, 90}).Draw(t, label+".clat")}
		default:
			s.Center = pt{rapid.Float64Range(-180, 180).Draw(t, label+".clon"), rapid.Float64Range(-80, 80).Draw(t, label+".clat")}
		}
		s.Meters = rapid.SampledFrom([]float64{1, 100, 10e3, 500e3, 3000e3, 8000e3, 11000e3, 15000e3, 19500e3}).Draw(t, label+".r")
		if rapid.IntRange(0, 3).Draw(t, label+".rcont") == 0 {
			// log-uniform between 1 m and half the circumference
			s.Meters = math.Pow(10, rapid.Float64Range(0, 7.3).Draw(t, label+".rexp"))
		}
		if rapid.IntRange(0, 2).Draw(t, label+".wide") == 0 {
			// a mid- or high-latitude circle that reaches most of the way to its pole without
			// containing it: its longitude extent is far wider than radius/cos(latitude)
			la := rapid.Float64Range(30, 80).Draw(t, label+".wlat")
			if rapid.Bool().Draw(t, label+".wsouth") {
				la = -la
			}
			s.Center = pt{rapid.Float64Range(-180, 180).Draw(t, label+".wlon"), la}
			s.Meters = rapid.Float64Range(0.5, 0.95).Draw(t, label+".wfrac") * (90 - math.Abs(la)) * 111195.0
		}
		// ring of points around the circle at 0.9r and 1.1r
		var near []pt
		dlat := s.Meters / 111195.0
		near = append(near, s.Center, pt{s.Center.Lon, math.Max(-90, math.Min(90, s.Center.Lat+0.9*dlat))}, pt{s.Center.Lon, math.Max(-90, math.Min(90, s.Center.Lat-1.1*dlat))})
		// ... and towards its east and west extremes (where the longitude width of the search
		// rectangle decides), just inside and just outside the rim
		for _, bearing := range []float64{60, 90, 120, 240, 270, 300} {
			near = append(near, destinationPoint(s.Center, bearing, 0.93*s.Meters), destinationPoint(s.Center, bearing, 1.07*s.Meters))
		}
		// ... and, for circles that contain no pole, around the two points where the rim reaches
		// its extreme longitudes (north-east / north-west of a northern centre, not due east):
		// latitude asin(sin(lat)/cos(d)), longitude offset asin(sin(d)/cos(lat))
		if d, la := s.Meters/6371008.8, s.Center.Lat*math.Pi/180; d < math.Pi/2 && math.Abs(la)+d < math.Pi/2 {
			lt := math.Asin(math.Sin(la)/math.Cos(d)) * 180 / math.Pi
			dl := math.Asin(math.Sin(d)/math.Cos(la)) * 180 / math.Pi
			for _, f := range []float64{0.8, 0.9, 1.1} {
				for _, sg := range []float64{-1, 1} {
					near = append(near, pt{math.Mod(s.Center.Lon+sg*f*dl+540, 360) - 180, lt})
				}
			}
		}
		return s, near
	default:
		s := shape{Kind: "polygon"}
		c := pt{rapid.Float64Range(-150, 150).Draw(t, label+".plon"), rapid.Float64Range(-60, 60).Draw(t, label+".plat")}
		r := rapid.Float64Range(0.5, 20).Draw(t, label+".pr")
		if rapid.IntRange(0, 3).Draw(t, label+".pbig") == 0 {
			r = rapid.Float64Range(20, 29).Draw(t, label+".prbig")
		}
		k := rapid.IntRange(3, 8).Draw(t, label+".k")
		angles := make([]float64, k)
		for i := range angles {
			angles[i] = rapid.Float64Range(0, 2*math.Pi).Draw(t, label+".ang")
		}
		sort.Float64s(angles)
		for _, a := range angles {
			f := rapid.Float64Range(0.5, 1).Draw(t, label+".f")
			s.Poly = append(s.Poly, pt{c.Lon + r*f*math.Cos(a), c.Lat + r*f*math.Sin(a)})
		}
		// reject degenerate (nearly collinear / repeated angle) polygons by construction: spread angles
		for i := 1; i < k; i++ {
			if angles[i]-angles[i-1] < 0.05 {
				s.Poly = []pt{{c.Lon - r, c.Lat - r}, {c.Lon + r, c.Lat - r}, {c.Lon, c.Lat + r}}
				break
			}
		}
		// either vertex order; and large polygons (tens of degrees across)
		if rapid.Bool().Draw(t, label+".clockwise") {
			for i, j := 0, len(s.Poly)-1; i < j; i, j = i+1, j-1 {
				s.Poly[i], s.Poly[j] = s.Poly[j], s.Poly[i]
			}
		}
		return s, append([]pt{c}, s.Poly...)
	}
}

func TestC18Geo(t *testing.T) {
	ev := Ev("C18")
	ev.SetRule("rapid: 2-4 shapes per case (boxes incl. date-line crossing, pole touching, thin; circles 1 m .. 19500 km (fixed ladder or log-uniform; beyond a quarter of the circumference the circle is larger than a hemisphere) incl. date line and poles, one circle in three reaching 50-95% of the way from a centre at |lat| 30-80 to its pole without containing it; star-shaped polygons with 3-8 vertices, 0.5-29 degrees in radius, listed counter-clockwise or clockwise) and 6-20 documents with 0-3 geopoints each (uniform on the sphere, specials at +-180/+-90, points at 1e-5..5 degrees from the shape's vertices/centre and, for circles, from rim anchors: due north/south, bearings 60-120/240-300 at 0.93r and 1.07r, and around the rim's extreme-longitude points) on upsidedown, scorch and scorch+s2; " +
		"oracle = exact geometry with a margin band (box/polygon 2e-6 deg; circle haversine with both ellipsoid radii, 0.5% + 1 m): Yes docs must be hits, No docs must not; point encoding round trip within one quantum; geo-distance sort is non-decreasing within the same band; " +
		"non-trivial = >=1 Yes and >=1 No document and >=1 multi-valued document")
	ev.Assume("points inside the margin band are not judged (stated resolution of the encoding)")
	checkPropN(t, "C18", 300, func(t *rapid.T) {
		cfg := Config{Engine: rapid.SampledFrom([]string{EngUDGtreap, EngScorchMem, EngScorchMem}).Draw(t, "engine")}
		if cfg.Engine == EngScorchMem && rapid.Bool().Draw(t, "s2") {
			cfg.Spatial = "s2"
		}
		idx, err := cfg.Create("", c18Mapping())
		if err != nil {
			t.Fatalf("create %s: %v", cfg, err)
		}
		defer idx.Close()
		ns := rapid.IntRange(2, 4).Draw(t, "nshapes")
		var shapes []shape
		var near []pt
		for i := 0; i < ns; i++ {
			s, n := genShape(t, fmt.Sprintf("s%d", i))
			shapes = append(shapes, s)
			near = append(near, n...)
		}
		nd := rapid.IntRange(6, 20).Draw(t, "ndocs")
		docs := map[string][]pt{}
		b := idx.NewBatch()
		multi := false
		for i := 0; i < nd; i++ {
			id := fmt.Sprintf("g%02d", i)
			np := rapid.SampledFrom([]int{0, 1, 1, 1, 2, 3}).Draw(t, "npoints")
			var ps []pt
			var vals []interface{}
			for j := 0; j < np; j++ {
				p := genPoint(t, "p", near)
				ps = append(ps, p)
				vals = append(vals, map[string]interface{}{"lon": p.Lon, "lat": p.Lat})
				// encoding round trip
				h := geo.MortonHash(p.Lon, p.Lat)
				if dl, da := math.Abs(geo.MortonUnhashLon(h)-p.Lon), math.Abs(geo.MortonUnhashLat(h)-p.Lat); dl > 360.0/4294967295*1.01 && math.Abs(dl-360) > 1e-6 || da > 180.0/4294967295*1.01 {
					t.Fatalf("point %v: unhash(hash) = (%v,%v): off by more than one quantum", p, geo.MortonUnhashLon(h), geo.MortonUnhashLat(h))
				}
			}
			if np >= 2 {
				multi = true
			}
			docs[id] = ps
			m := map[string]interface{}{}
			if np == 1 {
				m["g"] = vals[0]
			} else if np > 1 {
				m["g"] = vals
			}
			if err := b.Index(id, m); err != nil {
				t.Fatalf("index: %v", err)
			}
		}
		if err := idx.Batch(b); err != nil {
			t.Fatalf("batch: %v", err)
		}
		for _, s := range shapes {
			q := s.Bleve()
			if v, ok := q.(query.ValidatableQuery); ok && v.Validate() != nil {
				ev.Class("rejected-by-validate", 1)
				continue
			}
			req := bleve.NewSearchRequestOptions(q, 50, 0, false)
			req.SortBy([]string{"_id"})
			ctxDump = func() string { return fmt.Sprintf("C18 shape %s on %s docs %v", canonJSON(s), cfg, docs) }
			res, err := SearchWatchdog(idx, req)
			if err != nil {
				if strings.Contains(err.Error(), "panicked") || strings.Contains(err.Error(), "did not return") {
					t.Fatalf("shape %s on %s: %v", canonJSON(s), cfg, err)
				}
				ev.Class("rejected-with-error", 1)
				continue
			}
			hit := map[string]bool{}
			for _, h := range res.Hits {
				hit[h.ID] = true
			}
			yes, no := 0, 0
			_, s2RectKnown := KnownOpen("C18", c18KnownS2RectCovering)
			s2RectKnown = s2RectKnown && cfg.Spatial == "s2" && s.Kind == "box"
			for _, id := range sortedKeys(docs) {
				ps := docs[id]
				v := No
				for _, p := range ps {
					c := s.contains(p)
					if c == Yes && s2RectKnown && c18S2RectCoveringMisses(s, p) {
						// the open finding, by its exact call site: the s2 library's covering of this
						// rectangle has no cell for this point, so no query term can find it
						ev.Exclude(c18KnownS2RectCovering)
						c = Either
					}
					if c > v {
						v = c
					}
				}
				switch v {
				case Yes:
					yes++
					if !hit[id] {
						t.Fatalf("shape %s on %s: document %s with points %v has a point clearly inside but was not returned (hits %v)", canonJSON(s), cfg, id, ps, hitIDs(res))
					}
				case No:
					no++
					if hit[id] {
						t.Fatalf("shape %s on %s: document %s with points %v has all points clearly outside but was returned", canonJSON(s), cfg, id, ps)
					}
				}
			}
			cl := []string{"shape:" + s.Kind, "engine:" + cfg.Engine}
			if cfg.Spatial != "" {
				cl = append(cl, "s2")
			}
			if s.Kind == "box" && s.Left > s.Right {
				cl = append(cl, "date-line-box")
			}
			if s.Kind == "box" && s.Top == 90 {
				cl = append(cl, "pole-box")
			}
			if multi {
				cl = append(cl, "multi-valued-docs")
			}
			ev.Case(yes >= 1 && no >= 1 && multi, map[string]interface{}{"cfg": cfg, "shape": s, "docs": docs}, map[string]interface{}{"cfg": cfg, "shape": s, "ndocs": len(docs), "yes": yes, "no": no, "hits": len(res.Hits)}, cl...)
		}
		// sort by distance from a generated origin
		origin := genPoint(t, "origin", nil)
		for _, desc := range []bool{false, true} {
			ss, err := search.NewSortGeoDistance("g", "m", origin.Lon, origin.Lat, desc)
			if err != nil {
				t.Fatalf("sort: %v", err)
			}
			req := bleve.NewSearchRequestOptions(bleve.NewMatchAllQuery(), 50, 0, false)
			req.SortByCustom(search.SortOrder{ss, &search.SortDocID{}})
			res, err := SearchWatchdog(idx, req)
			if err != nil {
				t.Fatalf("distance sort: %v", err)
			}
			prev := -1.0
			prevID := ""
			for _, h := range res.Hits {
				ps := docs[h.ID]
				if len(ps) != 1 {
					continue // multi-valued: which value is used is not specified; no value: sentinel
				}
				d := haversineKm(origin, ps[0], 6371.0) * 1000
				if prev >= 0 {
					slack := 0.011*math.Max(d, prev) + 2
					if !desc && d < prev-slack || desc && d > prev+slack {
						t.Fatalf("distance sort desc=%v from %v on %s: %s (%.1f m) comes after %s (%.1f m)", desc, origin, cfg, h.ID, d, prevID, prev)
					}
				}
				prev, prevID = d, h.ID
			}
			ev.Case(len(res.Hits) >= 3, map[string]interface{}{"cfg": cfg, "origin": origin, "desc": desc, "docs": docs}, nil, "distance-sort")
		}
	})
}

// ---------------------------------------------------------------- open finding

const c18KnownS2RectCovering = "C18/s2-rect-covering-drops-cells"

// c18S2RectCoveringMisses reports whether the query terms of a box query under the s2 plugin
// cannot reach point p: bleve asks the s2 library (github.com/blevesearch/geo, a dependency
// outside /repo) for a cell covering of the rectangle (two rectangles for a box across the
// date line) with the options of geo.initS2OptionsForGeoPoints and searches the covering
// cells' terms; s2.Rect.IntersectsCell answers "disjoint" for some cells the rectangle's
// parallel cuts twice, and the covering then lacks every cell below such a cell.  The
// covering is computed here from the library itself, not through bleve: a change in bleve
// that loses terms of a correct covering is not excused by this predicate.
func c18S2RectCoveringMisses(s shape, p pt) bool {
	type part struct{ left, right float64 }
	parts := []part{{s.Left, s.Right}}
	if s.Right < s.Left {
		parts = []part{{-180, s.Right}, {s.Left, 180}}
	}
	P := s2.PointFromLatLng(s2.LatLngFromDegrees(p.Lat, p.Lon))
	for _, pa := range parts {
		rc := &s2.RegionCoverer{MinLevel: 4, MaxLevel: 16, LevelMod: 2, MaxCells: 8}
		cov := rc.Covering(s2.RectFromDegrees(s.Bottom, pa.left, s.Top, pa.right))
		if cov.ContainsPoint(P) {
			return false
		}
	}
	return true
}

// TestC18KnownS2RectCovering re-demonstrates the open finding on every run: the box
// lon -20..20, lat 43.2265625..90 has its two lower corners just above the upper edge of the
// cube face centred on (0,0) (that edge, a geodesic, is at 43.2193 degrees there and rises to
// 45 degrees at longitude 0), so the box reaches into the face only between its corners; the
// library reports the face as disjoint and the document at (1, 43.43), inside the box by 0.2
// degrees, is not found.  Without the plugin the same index answers correctly.
func TestC18KnownS2RectCovering(t *testing.T) {
	found := map[string]bool{}
	for _, spatial := range []string{"", "s2"} {
		idx, err := Config{Engine: EngScorchMem, Spatial: spatial}.Create("", c18Mapping())
		if err != nil {
			t.Fatalf("harness: %v", err)
		}
		if err := idx.Index("g0", map[string]interface{}{"g": map[string]interface{}{"lon": 1.0, "lat": 43.43253655778978}}); err != nil {
			t.Fatalf("harness: %v", err)
		}
		q := bleve.NewGeoBoundingBoxQuery(-20, 90, 20, 43.2265625)
		q.SetField("g")
		res, err := idx.Search(bleve.NewSearchRequest(q))
		idx.Close()
		if err != nil {
			t.Fatalf("harness: %v", err)
		}
		found[spatial] = res.Total == 1
	}
	if !found[""] {
		t.Fatalf("box lon -20..20 lat 43.2265625..90 misses the point (1, 43.4325) without the s2 plugin")
	}
	if found["s2"] {
		return
	}
	if k, open := KnownOpen("C18", c18KnownS2RectCovering); open {
		ReportKnown(k)
		return
	}
	t.Fatalf("box lon -20..20 lat 43.2265625..90 misses the point (1, 43.4325) on scorch with the s2 plugin")
}
