package harness

import (
	"bytes"
	"context"
	"fmt"
	"math"
	"sort"
	"strings"
	"testing"
	"time"

	"github.com/blevesearch/bleve/v2"
	"github.com/blevesearch/bleve/v2/numeric"
	"github.com/blevesearch/bleve/v2/search"
	"github.com/blevesearch/bleve/v2/search/searcher"
	index "github.com/blevesearch/bleve_index_api"
	"pgregory.net/rapid"
)

// C07 — numeric and date values sort and range-match exactly as numbers.

var c07Specials = func() []float64 {
	s := []float64{0, math.SmallestNonzeroFloat64, -math.SmallestNonzeroFloat64,
		math.Float64frombits(0x000FFFFFFFFFFFFF), -math.Float64frombits(0x000FFFFFFFFFFFFF), // max subnormal
		math.Float64frombits(0x0010000000000000), -math.Float64frombits(0x0010000000000000), // min normal
		1, -1, math.MaxFloat64, -math.MaxFloat64, math.Inf(1), math.Inf(-1), 1e250, -1e250, 1e300, -1e300, 3.2e231, -3.2e231, 1e-300,
		0.9999999999999999, 1.0000000000000002, 0.5, 2, 3, 16, 255, 256, 1e9, -1e9}
	for k := 0; k < 63; k += 7 {
		f := math.Ldexp(1, k)
		s = append(s, f, f+1, f-1, -f)
	}
	return s
}()

// genFloat: specials, their 1-ulp neighbours, values whose int64 image sits on a
// 4-bit (and 7-bit) boundary, and arbitrary bit patterns.  Never NaN, never -0.
func genFloat(t *rapid.T, label string) float64 {
	var f float64
	switch rapid.IntRange(0, 6).Draw(t, label+".class") {
	case 5, 6:
		// sign, exponent and mantissa drawn separately: rapid's integers are biased to
		// small values, so raw 64-bit patterns almost never have a large exponent; the
		// range splitter behaves differently near the ends of the int64 image (wrap guards)
		exp := uint64(rapid.IntRange(0, 0x7fe).Draw(t, label+".exp"))
		if rapid.IntRange(0, 2).Draw(t, label+".huge") == 0 {
			exp = uint64(rapid.IntRange(0x6f0, 0x7fe).Draw(t, label+".hugeexp"))
		}
		mant := rapid.Uint64().Draw(t, label+".mant") & (1<<52 - 1)
		if rapid.Bool().Draw(t, label+".mantones") {
			mant = ^mant & (1<<52 - 1)
		}
		bits := exp<<52 | mant
		if rapid.Bool().Draw(t, label+".sign") {
			bits |= 1 << 63
		}
		f = math.Float64frombits(bits)
	case 0:
		f = rapid.SampledFrom(c07Specials).Draw(t, label+".special")
	case 1:
		f = rapid.SampledFrom(c07Specials).Draw(t, label+".special")
		if rapid.Bool().Draw(t, label+".up") {
			f = math.Nextafter(f, math.Inf(1))
		} else {
			f = math.Nextafter(f, math.Inf(-1))
		}
	case 2:
		// int64 image x*2^j + {-1,0,1}
		j := rapid.IntRange(0, 62).Draw(t, label+".j")
		x := int64(rapid.IntRange(1, 15).Draw(t, label+".x"))
		d := int64(rapid.IntRange(-1, 1).Draw(t, label+".d"))
		i := x<<uint(j) + d
		if rapid.Bool().Draw(t, label+".neg") {
			i = -i
		}
		f = numeric.Int64ToFloat64(i)
	default:
		f = math.Float64frombits(rapid.Uint64().Draw(t, label+".bits"))
	}
	if f != f { // NaN: exponent all ones, mantissa non-zero -> clear the mantissa (infinity)
		f = math.Inf(1)
	}
	if f == 0 {
		f = 0 // folds -0 into +0
	}
	return f
}

func ord(i int64) uint64 { return uint64(i) ^ (1 << 63) } // order-preserving int64 -> uint64

func TestC07Encoding(t *testing.T) {
	ev := Ev("C07")
	ev.SetRule("O1 encoding (rapid): pairs of float64 from specials, 1-ulp neighbours, int64 images x*2^j+{-1,0,1}, random bit patterns (no NaN, no -0): order isomorphism of Float64ToInt64 and of the shift-0 prefix code, round trips, prefix code at every shift clears the low bits; " +
		"O2 splitter cover: NewNumericRangeSearcher against a recording stub reader (IndexReaderContains): the candidate terms' int64 intervals must be pairwise disjoint and cover exactly [lo,hi] for every (min,max,inclMin,inclMax) incl. nil ends, infinities and min>max, and the call must return within 30 s; " +
		"O3 index level on both engines: numeric and date range queries judged by direct comparison, numeric sort order; " +
		"non-trivial = O1 pair <=2 ulp apart or of different sign / O2 cover uses >=2 precision levels or an infinite bound / O3 >=1 match and >=1 non-match")
	ev.Assume("NaN and negative zero are outside the property's domain")
	checkPropN(t, "C07", 20000, func(t *rapid.T) {
		a, b := genFloat(t, "a"), genFloat(t, "b")
		ia, ib := numeric.Float64ToInt64(a), numeric.Float64ToInt64(b)
		if numeric.Int64ToFloat64(ia) != a || numeric.Int64ToFloat64(ib) != b {
			t.Fatalf("round trip: %v -> %d -> %v", a, ia, numeric.Int64ToFloat64(ia))
		}
		ca := numeric.MustNewPrefixCodedInt64(ia, 0)
		cb := numeric.MustNewPrefixCodedInt64(ib, 0)
		cmpF := 0
		switch {
		case a < b:
			cmpF = -1
		case a > b:
			cmpF = 1
		}
		cmpI := 0
		switch {
		case ia < ib:
			cmpI = -1
		case ia > ib:
			cmpI = 1
		}
		if cmpF != cmpI || bytes.Compare(ca, cb) != cmpF {
			t.Fatalf("order: %v (%d, % x) vs %v (%d, % x): float cmp %d, int cmp %d, bytes cmp %d", a, ia, ca, b, ib, cb, cmpF, cmpI, bytes.Compare(ca, cb))
		}
		for shift := uint(0); shift < 64; shift += 4 {
			pc := numeric.MustNewPrefixCodedInt64(ia, shift)
			sh, err := pc.Shift()
			if err != nil || sh != shift {
				t.Fatalf("shift of %v at %d: %d %v", a, shift, sh, err)
			}
			v, err := pc.Int64()
			want := int64(uint64(ia) &^ (uint64(1)<<shift - 1))
			if err != nil || v != want {
				t.Fatalf("prefix code of %v (%d) at shift %d decodes to %d (err %v), want %d", a, ia, shift, v, err, want)
			}
			if valid, vs := numeric.ValidPrefixCodedTermBytes(pc); !valid || uint(vs) != shift {
				t.Fatalf("ValidPrefixCodedTermBytes(% x) = %v,%d", pc, valid, vs)
			}
		}
		ulps := ord(ia) - ord(ib)
		if ord(ib) > ord(ia) {
			ulps = ord(ib) - ord(ia)
		}
		nt := ulps <= 2 || (a < 0) != (b < 0)
		ev.Case(nt, [2]uint64{math.Float64bits(a), math.Float64bits(b)}, map[string]string{"a": fmt.Sprint(a), "b": fmt.Sprint(b)}, "O1-encoding")
	})
}

// ---------------------------------------------------------------- O2 splitter cover

type c07Recorder struct {
	c06Reader
	terms [][]byte
}

type c07Dict struct{ r *c07Recorder }

func (d c07Dict) Contains(key []byte) (bool, error) {
	d.r.terms = append(d.r.terms, append([]byte(nil), key...))
	return false, nil
}
func (d c07Dict) BytesRead() uint64 { return 0 }

func (r *c07Recorder) FieldDictContains(field string) (index.FieldDictContains, error) {
	return c07Dict{r}, nil
}

func c07Cover(min, max *float64, imin, imax *bool) (terms [][]byte, err error) {
	rec := &c07Recorder{}
	done := make(chan error, 1)
	go func() {
		defer func() {
			if p := recover(); p != nil {
				done <- fmt.Errorf("panic: %v", p)
			}
		}()
		s, err := searcher.NewNumericRangeSearcher(context.Background(), rec, min, max, imin, imax, "n", 1.0, search.SearcherOptions{})
		if s != nil {
			_ = s.Close()
		}
		done <- err
	}()
	select {
	case err := <-done:
		return rec.terms, err
	case <-time.After(30 * time.Second):
		FatalNoShrink(fmt.Sprintf("NewNumericRangeSearcher(min=%v max=%v inclMin=%v inclMax=%v) did not return within 30s", optF(min), optF(max), optB(imin), optB(imax)))
		return nil, nil
	}
}

func TestC07Splitter(t *testing.T) {
	ev := Ev("C07")
	checkPropN(t, "C07", 5000, func(t *rapid.T) {
		pick := func(l string) *float64 {
			if rapid.IntRange(0, 5).Draw(t, l+".open") == 0 {
				return nil
			}
			f := genFloat(t, l)
			return &f
		}
		min, max := pick("min"), pick("max")
		if rapid.IntRange(0, 3).Draw(t, "adjacent") == 0 && min != nil {
			// bounds a few ulps apart: the blocks where a carry crosses term bytes
			f := numeric.Int64ToFloat64(numeric.Float64ToInt64(*min) + int64(rapid.IntRange(0, 40).Draw(t, "gap")))
			if f == f {
				max = &f
			}
		}
		imin, imax := optBool(t, "imin"), optBool(t, "imax")
		ctxDump = func() string {
			return fmt.Sprintf("C07 range min=%v max=%v inclMin=%v inclMax=%v", optF(min), optF(max), optB(imin), optB(imax))
		}
		terms, err := c07Cover(min, max, imin, imax)
		if err != nil {
			t.Fatalf("NewNumericRangeSearcher(min=%v max=%v %v %v): %v", optF(min), optF(max), optB(imin), optB(imax), err)
		}
		// expected closed int64 interval
		// (an open end is the matching infinity, always inclusive; exclusive closed ends
		// step to the neighbouring float, i.e. the neighbouring int64 image)
		lo := numeric.Float64ToInt64(math.Inf(-1))
		hi := numeric.Float64ToInt64(math.Inf(1))
		if min != nil {
			lo = numeric.Float64ToInt64(*min)
			if imin != nil && !*imin {
				lo++
			}
		}
		if max != nil {
			hi = numeric.Float64ToInt64(*max)
			if imax == nil || !*imax {
				hi--
			}
		}
		type iv struct{ a, b uint64 }
		var ivs []iv
		levels := map[uint]bool{}
		for _, tm := range terms {
			valid, ishift := numeric.ValidPrefixCodedTermBytes(tm)
			shift := uint(ishift)
			if !valid {
				t.Fatalf("range min=%v max=%v: candidate term % x is not a valid prefix coded term", optF(min), optF(max), tm)
			}
			p, err := numeric.PrefixCoded(tm).Int64()
			if err != nil {
				t.Fatalf("candidate term % x: %v", tm, err)
			}
			levels[shift] = true
			ivs = append(ivs, iv{ord(p), ord(p) + (uint64(1)<<shift - 1)})
		}
		sort.Slice(ivs, func(i, j int) bool { return ivs[i].a < ivs[j].a })
		desc := func() string {
			return fmt.Sprintf("range min=%v max=%v inclMin=%v inclMax=%v (int64 [%d,%d]), %d candidate terms", optF(min), optF(max), optB(imin), optB(imax), lo, hi, len(terms))
		}
		if lo > hi {
			if len(ivs) != 0 {
				t.Fatalf("%s: empty range but candidate terms were produced", desc())
			}
		} else {
			if len(ivs) == 0 {
				t.Fatalf("%s: no candidate terms for a non-empty range", desc())
			}
			if ivs[0].a != ord(lo) {
				t.Fatalf("%s: cover starts at %d, want %d", desc(), int64(ivs[0].a^(1<<63)), lo)
			}
			for i := 1; i < len(ivs); i++ {
				if ivs[i].a != ivs[i-1].b+1 {
					t.Fatalf("%s: intervals %d and %d overlap or leave a gap: [%x,%x] then [%x,%x]", desc(), i-1, i, ivs[i-1].a, ivs[i-1].b, ivs[i].a, ivs[i].b)
				}
			}
			if ivs[len(ivs)-1].b != ord(hi) {
				t.Fatalf("%s: cover ends at %d, want %d", desc(), int64(ivs[len(ivs)-1].b^(1<<63)), hi)
			}
		}
		inf := min == nil || max == nil || math.IsInf(*min, 0) || math.IsInf(*max, 0)
		nt := len(levels) >= 2 || inf
		cl := []string{"O2-splitter"}
		for s := range levels {
			cl = append(cl, fmt.Sprintf("shift:%d", s))
		}
		if lo > hi {
			cl = append(cl, "empty-range")
		}
		canon := fmt.Sprintf("%v|%v|%v|%v", optF(min), optF(max), optB(imin), optB(imax))
		ev.Case(nt, canon, map[string]interface{}{"min": optF(min), "max": optF(max), "inclMin": optB(imin), "inclMax": optB(imax), "terms": len(terms)}, cl...)
	})
}

// ---------------------------------------------------------------- O3 index level

func TestC07Index(t *testing.T) {
	ev := Ev("C07")
	checkPropN(t, "C07", 150, func(t *rapid.T) {
		eng := rapid.SampledFrom([]string{EngScorchMem, EngUDGtreap, EngScorchMem, EngUDBolt}).Draw(t, "engine")
		dir := TempDir(t)
		idx, err := Config{Engine: eng}.Create(dir, WorldMapping())
		if err != nil {
			t.Fatalf("create: %v", err)
		}
		defer idx.Close()
		pool := make([]float64, rapid.IntRange(2, 6).Draw(t, "npool"))
		for i := range pool {
			pool[i] = genFloat(t, "pool")
		}
		// a neighbour pair in the pool
		if nb := math.Nextafter(pool[0], math.Inf(1)); nb != 0 { // (the neighbour of -5e-324 is -0: outside the domain)
			pool = append(pool, nb)
		}
		dpool := []int64{0, 1, -1, 1 << 28, 1<<28 - 1, 1<<28 + 1, 1577934245000000000, 1577934245000000001,
			-(1 << 35), -(1 << 35) - 1, 1<<42 - 1, 1 << 42, c07DateLo + 1, c07DateHi - 1,
			time.Date(2240, 1, 1, 0, 0, 0, 0, time.UTC).UnixNano(), time.Date(2250, 6, 1, 0, 0, 0, 1, time.UTC).UnixNano(),
			time.Date(1700, 1, 1, 0, 0, 0, 0, time.UTC).UnixNano(), time.Date(1690, 6, 1, 0, 0, 0, 0, time.UTC).UnixNano()}
		// dates beyond the int64 images of -Inf/+Inf (the last and first ~52 days of the
		// representable range): legal for documents and for explicit endpoints
		dpool = append(dpool, math.MaxInt64-1, math.MinInt64+1, c07DateLo, c07DateHi, c07DateHi+1e15, c07DateLo-1e15, c07DateHi+3e15)
		_, extremeKnown := KnownOpen("C07", c07KnownExtremeDates)
		ndocs := rapid.IntRange(2, 8).Draw(t, "ndocs")
		type doc struct {
			n []float64
			d []int64
		}
		docs := map[string]doc{}
		b := idx.NewBatch()
		for i := 0; i < ndocs; i++ {
			id := DocIDs[i]
			var dd doc
			m := map[string]interface{}{}
			if k := rapid.IntRange(0, 2).Draw(t, "nn"); k > 0 {
				var vals []interface{}
				for j := 0; j < k; j++ {
					v := rapid.SampledFrom(pool).Draw(t, "n")
					dd.n = append(dd.n, v)
					vals = append(vals, v)
				}
				m["n"] = vals
			}
			if k := rapid.IntRange(0, 2).Draw(t, "nd"); k > 0 {
				var vals []interface{}
				for j := 0; j < k; j++ {
					v := rapid.SampledFrom(dpool).Draw(t, "d")
					dd.d = append(dd.d, v)
					vals = append(vals, time.Unix(0, v).UTC())
				}
				m["d"] = vals
			}
			docs[id] = dd
			if err := b.Index(id, m); err != nil {
				t.Fatalf("index: %v", err)
			}
		}
		if err := idx.Batch(b); err != nil {
			t.Fatalf("batch: %v", err)
		}
		for qi := 0; qi < 6; qi++ {
			var want []string
			var q *Q
			if rapid.Bool().Draw(t, "numeric") {
				q = &Q{Kind: "numrange", Field: "n", InclMin: optBool(t, "imin"), InclMax: optBool(t, "imax")}
				if rapid.IntRange(0, 4).Draw(t, "openmin") != 0 {
					v := rapid.SampledFrom(pool).Draw(t, "min")
					q.NMin = &v
				}
				if q.NMin == nil || rapid.IntRange(0, 4).Draw(t, "openmax") != 0 {
					v := rapid.SampledFrom(pool).Draw(t, "max")
					q.NMax = &v
				}
				for id, d := range docs {
					for _, v := range d.n {
						if inRangeOpen(v, q.NMin, q.NMax, q.InclMin, q.InclMax) {
							want = append(want, id)
							break
						}
					}
				}
			} else {
				q = &Q{Kind: "daterange", Field: "d", InclMin: optBool(t, "imin"), InclMax: optBool(t, "imax")}
				if rapid.IntRange(0, 4).Draw(t, "openmin") != 0 {
					v := rapid.SampledFrom(dpool).Draw(t, "dmin")
					q.DMin = &v
				}
				if q.DMin == nil || rapid.IntRange(0, 4).Draw(t, "openmax") != 0 {
					v := rapid.SampledFrom(dpool).Draw(t, "dmax")
					q.DMax = &v
				}
				if extremeKnown {
					// the open finding: an open end stands for -Inf/+Inf, whose image lies inside the
					// date range, so values beyond it are missed - excluded by its exact shape
					// ("beyond" includes the image itself: the substituted bound is exclusive)
					beyondHi, beyondLo := q.DMin != nil && *q.DMin >= c07DateHi, q.DMax != nil && *q.DMax <= c07DateLo
					for _, d := range docs {
						for _, v := range d.d {
							beyondHi = beyondHi || v >= c07DateHi
							beyondLo = beyondLo || v <= c07DateLo
						}
					}
					if q.DMax == nil && beyondHi || q.DMin == nil && beyondLo {
						ev.Exclude(c07KnownExtremeDates)
						continue
					}
				}
				for id, d := range docs {
					for _, v := range d.d {
						if inRangeI(v, q.DMin, q.DMax, q.InclMin, q.InclMax) {
							want = append(want, id)
							break
						}
					}
				}
			}
			sort.Strings(want)
			bq := q.Bleve()
			if q.Kind == "daterange" {
				// nanosecond bounds need a nanosecond format when the query is serialised
				// (C17); in-process the time values are used as they are.
			}
			req := bleve.NewSearchRequestOptions(bq, 20, 0, false)
			req.SortBy([]string{"_id"})
			ctxDump = func() string { return fmt.Sprintf("C07 index query %s on %s docs %v", q, eng, docs) }
			res, err := SearchWatchdog(idx, req)
			if err != nil {
				if strings.Contains(err.Error(), "invalid/unsupported date range") {
					// endpoints outside [query.MinRFC3339CompatibleTime, MaxRFC3339CompatibleTime]
					// are rejected with an error: handled cleanly, outside the query domain
					ev.Class("date-endpoint-rejected", 1)
					continue
				}
				t.Fatalf("query %s on %s: %v", q, eng, err)
			}
			got := hitIDs(res)
			if strings.Join(got, ",") != strings.Join(want, ",") {
				t.Fatalf("query %s on %s: hits %v, direct comparison says %v (docs %v)", q, eng, got, want, docs)
			}
			nt := len(want) >= 1 && len(want) < len(docs)
			ev.Case(nt, map[string]interface{}{"eng": eng, "q": q.String(), "docs": fmt.Sprint(docs)}, map[string]interface{}{"engine": eng, "query": q.String(), "hits": got}, "O3-index-range", "engine:"+eng)
		}
		// numeric sort order (typed, min/max mode)
		for _, desc := range []bool{false, true} {
			sf := &search.SortField{Field: "n", Desc: desc, Type: search.SortFieldAsNumber, Mode: search.SortFieldMin}
			if desc {
				sf.Mode = search.SortFieldMax
			}
			req := bleve.NewSearchRequestOptions(bleve.NewMatchAllQuery(), 20, 0, false)
			req.SortByCustom(search.SortOrder{sf, &search.SortDocID{}})
			res, err := SearchWatchdog(idx, req)
			if err != nil {
				t.Fatalf("sort search: %v", err)
			}
			key := func(id string) (float64, bool) {
				d := docs[id]
				if len(d.n) == 0 {
					return 0, false
				}
				v := append([]float64(nil), d.n...)
				sort.Float64s(v)
				if desc {
					return v[len(v)-1], true
				}
				return v[0], true
			}
			hs := hitIDs(res)
			for i := 1; i < len(hs); i++ {
				ka, oka := key(hs[i-1])
				kb, okb := key(hs[i])
				bad := false
				switch {
				case !oka && okb:
					bad = true // missing sorts last
				case oka && okb && !desc && ka > kb, oka && okb && desc && ka < kb:
					bad = true
				case oka && okb && ka == kb && hs[i-1] > hs[i], !oka && !okb && hs[i-1] > hs[i]:
					bad = true
				}
				if bad {
					t.Fatalf("sort by n desc=%v on %s: %v is not in numeric order (docs %v)", desc, eng, hs, docs)
				}
			}
			ev.Case(len(hs) >= 3, map[string]interface{}{"eng": eng, "desc": desc, "docs": fmt.Sprint(docs)}, nil, "O3-index-sort")
		}
	})
}

// inRangeOpen: like inRangeF but an open end never excludes (the documented meaning).
func inRangeOpen(v float64, min, max *float64, imn, imx *bool) bool {
	return inRangeF(v, min, max, imn, imx)
}

// The int64 images of -Inf and +Inf: open-ended ranges are evaluated between them.
var (
	c07DateLo = numeric.Float64ToInt64(math.Inf(-1))
	c07DateHi = numeric.Float64ToInt64(math.Inf(1))
)

const c07KnownExtremeDates = "C07/open-date-range-misses-dates-beyond-inf-image"

// TestC07KnownExtremeDates: deterministic reproducer of the known finding (see known_findings.json).
func TestC07KnownExtremeDates(t *testing.T) {
	idx, err := Config{Engine: EngScorchMem}.Create("", WorldMapping())
	if err != nil {
		t.Fatalf("harness: %v", err)
	}
	defer idx.Close()
	// 2262-03-01 lies inside both the document range (<= time.Unix(0, MaxInt64)) and the
	// query range (<= query.MaxRFC3339CompatibleTime) but beyond the int64 image of +Inf.
	early := time.Date(2262, 3, 1, 0, 0, 0, 0, time.UTC)
	if err := idx.Index("d0", map[string]interface{}{"d": early}); err != nil {
		t.Fatalf("harness: %v", err)
	}
	q := bleve.NewDateRangeQuery(time.Unix(0, 0).UTC(), time.Time{}) // everything from 1970 on
	q.SetField("d")
	res, err := idx.Search(bleve.NewSearchRequest(q))
	if err != nil {
		t.Fatalf("harness: %v", err)
	}
	if res.Total == 1 {
		return
	}
	if k, open := KnownOpen("C07", c07KnownExtremeDates); open {
		ReportKnown(k)
		return
	}
	t.Fatalf("date range (-inf, 1970) misses the document dated %v", early)
}
