package harness

import (
	"fmt"
	"os"
	"testing"
	"time"

	"github.com/blevesearch/bleve/v2"
	"pgregory.net/rapid"
)

// C01 — index contents equal the last-write-wins replay of the history.

type c01Step struct {
	Kind string `json:"kind"` // batch | single | reopen | merge | wait
	Ops  []Op   `json:"ops,omitempty"`
}

func envInt(name string, def int) int {
	if v := os.Getenv(name); v != "" {
		var n int
		if _, err := fmt.Sscan(v, &n); err == nil {
			return n
		}
	}
	return def
}

func thorough() bool { return os.Getenv("VERIF_TIER") == "thorough" }

func genC01Steps(t *rapid.T, cfg Config, maxSteps int) []c01Step {
	n := rapid.IntRange(1, maxSteps).Draw(t, "nsteps")
	steps := make([]c01Step, 0, n)
	for i := 0; i < n; i++ {
		c := rapid.IntRange(0, 19).Draw(t, "step")
		switch {
		case c < 10:
			steps = append(steps, c01Step{Kind: "batch", Ops: GenBatch(t, "b", 6, DocGenOpts{})})
		case c < 15:
			steps = append(steps, c01Step{Kind: "single", Ops: []Op{GenOp(t, "s", DocGenOpts{})}})
		case c < 17 && cfg.OnDisk():
			steps = append(steps, c01Step{Kind: "reopen"})
		case c < 19 && cfg.Engine == EngScorchDisk:
			steps = append(steps, c01Step{Kind: "merge"})
		case cfg.Engine == EngScorchDisk:
			steps = append(steps, c01Step{Kind: "wait"})
		default:
			steps = append(steps, c01Step{Kind: "batch", Ops: GenBatch(t, "b", 6, DocGenOpts{})})
		}
	}
	return steps
}

// c01Classify computes the generator classes and the non-trivial rule.
func c01Classify(steps []c01Step) (nontrivial bool, classes []string) {
	type idState struct {
		live                       bool
		update, deleted, recreated bool
		batchesTouched             int
	}
	st := map[string]*idState{}
	cl := map[string]bool{}
	anyDeleted := false
	for _, s := range steps {
		switch s.Kind {
		case "reopen":
			if anyDeleted {
				cl["reopen-after-delete"] = true
			}
			continue
		case "merge":
			if anyDeleted {
				cl["merge-after-delete"] = true
			}
			continue
		case "wait":
			continue
		}
		if s.Kind == "batch" && len(s.Ops) == 0 {
			cl["empty-batch"] = true
		}
		seen := map[string]int{}
		for _, o := range s.Ops {
			if o.Kind != OpIndex && o.Kind != OpDelete {
				cl["internal-op"] = true
				continue
			}
			seen[o.ID]++
		}
		// effective op per id = last
		eff := map[string]Op{}
		for _, o := range s.Ops {
			if o.Kind == OpIndex || o.Kind == OpDelete {
				eff[o.ID] = o
			}
		}
		for id, o := range eff {
			x := st[id]
			if x == nil {
				x = &idState{}
				st[id] = x
			}
			x.batchesTouched++
			if seen[id] >= 2 {
				cl["same-id-twice-in-batch"] = true
			}
			if o.Kind == OpIndex {
				if x.live {
					x.update = true
				} else if x.deleted {
					x.recreated = true
				}
				x.live = true
			} else {
				if x.live {
					x.deleted = true
					anyDeleted = true
				} else {
					cl["delete-absent"] = true
				}
				x.live = false
			}
		}
	}
	for _, x := range st {
		if x.update && x.deleted && x.recreated && x.batchesTouched >= 2 {
			cl["update-delete-recreate"] = true
		}
	}
	nontrivial = cl["update-delete-recreate"] || cl["same-id-twice-in-batch"]
	for k := range cl {
		classes = append(classes, k)
	}
	return
}

// c01AfterWrite, when set, is called after every acknowledged write (schedule coupling).
var c01AfterWrite func()

func c01Run(t *rapid.T, cfg Config, steps []c01Step, checkEvery bool) (*Observed, *State) {
	dir := TempDir(t)
	idx, err := cfg.Create(dir, WorldMapping())
	if err != nil {
		t.Fatalf("create %s: %v", cfg, err)
	}
	closed := false
	defer func() {
		if !closed {
			idx.Close()
		}
	}()
	model := NewState()
	var last *Observed
	for i, s := range steps {
		switch s.Kind {
		case "batch":
			if err := ApplyBatch(idx, s.Ops); err != nil {
				t.Fatalf("step %d batch: %v", i, err)
			}
			model.Apply(s.Ops)
			if c01AfterWrite != nil {
				c01AfterWrite()
			}
		case "single":
			if err := ApplySingle(idx, s.Ops[0]); err != nil {
				t.Fatalf("step %d single: %v", i, err)
			}
			model.Apply(s.Ops)
			if c01AfterWrite != nil {
				c01AfterWrite()
			}
		case "reopen":
			if cfg.UnsafeBatch {
				// unsafe_batch acknowledges before persisting; a clean Close does not flush
				// (C03 states the guarantee for that mode), so C01 waits first.
				if err := WaitPersisted(idx, 30*time.Second); err != nil {
					t.Fatalf("step %d: %v", i, err)
				}
			}
			if err := idx.Close(); err != nil {
				t.Fatalf("step %d close: %v", i, err)
			}
			closed = true
			idx, err = cfg.Reopen(dir)
			if err != nil {
				t.Fatalf("step %d reopen: %v", i, err)
			}
			closed = false
		case "merge":
			if err := ForceMerge1(idx); err != nil {
				t.Fatalf("step %d force merge: %v", i, err)
			}
		case "wait":
			if err := WaitPersisted(idx, 30*time.Second); err != nil {
				t.Fatalf("step %d: %v", i, err)
			}
		}
		if checkEvery || i == len(steps)-1 {
			o, err := Observe(idx, DocIDs, InternalKeys)
			if err != nil {
				t.Fatalf("after step %d (%s) on %s: %v", i, s.Kind, cfg, err)
			}
			if d := o.DiffModel(model, DocIDs, InternalKeys); d != "" {
				t.Fatalf("after step %d (%s) on %s: %s", i, s.Kind, cfg, d)
			}
			last = o
		}
	}
	if err := idx.Close(); err != nil {
		t.Fatalf("final close: %v", err)
	}
	closed = true
	return last, model
}

// repartition flattens the data ops of a history and cuts them differently.
func c01Repartition(t *rapid.T, steps []c01Step) []c01Step {
	var flat []Op
	for _, s := range steps {
		flat = append(flat, s.Ops...)
	}
	mode := rapid.IntRange(0, 2).Draw(t, "partition")
	var out []c01Step
	switch mode {
	case 0: // all singletons through the non-batch API
		for _, o := range flat {
			out = append(out, c01Step{Kind: "single", Ops: []Op{o}})
		}
	case 1: // one big batch
		out = append(out, c01Step{Kind: "batch", Ops: flat})
	default: // random contiguous cuts
		for len(flat) > 0 {
			n := rapid.IntRange(1, len(flat)).Draw(t, "cut")
			out = append(out, c01Step{Kind: "batch", Ops: flat[:n]})
			flat = flat[n:]
		}
	}
	if len(out) == 0 {
		out = append(out, c01Step{Kind: "batch"})
	}
	return out
}

func TestC01History(t *testing.T) {
	ev := Ev("C01")
	ev.SetRule("rapid-generated histories (1..N steps of batch(0-6 ops)/single op/reopen/force-merge/wait over 8 ids and 3 internal keys) on a drawn engine config, " +
		"checked against the last-write-wins map after every step, then the flattened ops re-partitioned and replayed on a second drawn config and the two observable states compared; " +
		"scheduled mode (scorch disk, unsafe batches): the same per-step check while persister and merger wait at 1-8 drawn window points for the writer's next call (8 ms cap); " +
		"merge-window mode (scorch disk, unsafe batches): 1-3 windows; in-memory-merge window = persister parked at the end of a round, 2-4 batches pile up, one round starts and is stopped at persist.memMerge.afterFiles; file-merge window = 2-5 persisted segments force-merged with a plan of 2/3/10 segments per task and the merger stopped at merge.beforeIntroduce; 1-2 generated batches are written inside the window, state == model after every batch, after the merge introduction, after settling and after a reopen (non-trivial there = a write landed inside a window); " +
		"non-trivial = some id is updated while live, deleted and re-created across >=2 batches, or a batch has >=2 ops on one id; distinct = hash of (configs, steps)")
	ev.Assume("document ids and words are ASCII; internal values are non-empty")
	engines := []string{EngScorchMem, EngScorchMem, EngScorchMem, EngUDGtreap, EngUDGtreap, EngUDMoss, EngScorchDisk, EngUDBolt, EngUDLevel}
	maxSteps := 25
	if thorough() {
		engines = []string{EngScorchMem, EngUDGtreap, EngUDMoss, EngScorchDisk, EngScorchDisk, EngScorchDisk, EngUDBolt, EngUDLevel}
		maxSteps = 40
	}
	checkPropN(t, "C01", 300, func(t *rapid.T) {
		cfgA := GenConfig(t, "A", engines)
		steps := genC01Steps(t, cfgA, maxSteps)
		cfgB := GenConfig(t, "B", engines)
		stepsB := c01Repartition(t, steps)
		nt, classes := c01Classify(steps)
		classes = append(classes, "engine:"+cfgA.Engine, "engineB:"+cfgB.Engine)
		obsA, _ := c01Run(t, cfgA, steps, true)
		obsB, _ := c01Run(t, cfgB, stepsB, false)
		if d := obsA.DiffObserved(obsB); d != "" {
			t.Fatalf("same ops, different partition/config: A=%s B=%s: %s", cfgA, cfgB, d)
		}
		canon := map[string]interface{}{"A": cfgA, "B": cfgB, "steps": steps, "stepsB": len(stepsB)}
		ev.Case(nt, canon, canon, classes...)
	})
}

var _ = bleve.NewMatchAllQuery
