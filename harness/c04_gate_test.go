//go:build verif

package harness

import (
	"bytes"
	"encoding/json"
	"fmt"
	"os"
	"runtime"
	"sort"
	"strconv"
	"strings"
	"sync"
	"testing"
	"time"

	index "github.com/blevesearch/bleve_index_api"
	"pgregory.net/rapid"
)

// C04 gate mode: the harness owns the order in which batch, persist and merge
// introductions reach the introducer.  Every party blocks at its "beforeIntroduce" hook
// point; a scheduler releases one party at a time, waits for the corresponding root swap,
// and checks the complete index state against the model after every step.  For tiny
// scenarios the tree of choices is enumerated depth-first.

func goid() uint64 {
	var buf [64]byte
	n := runtime.Stack(buf[:], false)
	f := bytes.Fields(buf[:n])
	id, _ := strconv.ParseUint(string(f[1]), 10, 64)
	return id
}

type gateParty struct {
	name    string
	release chan struct{}
}

type gateSched struct {
	mu      sync.Mutex
	waiting map[string]*gateParty
	names   map[uint64]string // goroutine id -> writer name
	swaps   map[string]int    // completed swaps per kind
	arrived chan struct{}
	active  bool
}

var gatePoints = map[string]string{
	"batch.beforeIntroduce":       "batch",
	"persist.beforeIntroduce":     "persist",
	"merge.beforeIntroduce":       "merge",
	"persist.memMerge.afterFiles": "memmerge",
}

func (g *gateSched) onPoint(p string) {
	switch p {
	case "intro.segment.afterSwap", "intro.persist.afterSwap", "intro.merge.afterSwap":
		g.mu.Lock()
		g.swaps[p]++
		g.mu.Unlock()
		return
	}
	kind, ok := gatePoints[p]
	if !ok {
		return
	}
	g.mu.Lock()
	if !g.active {
		g.mu.Unlock()
		return
	}
	name := kind
	if kind == "batch" {
		name = g.names[goid()]
		if name == "" {
			g.mu.Unlock()
			return // not one of the scenario's writers (index creation)
		}
	}
	party := &gateParty{name: name, release: make(chan struct{})}
	g.waiting[name] = party
	g.mu.Unlock()
	select {
	case g.arrived <- struct{}{}:
	default:
	}
	<-party.release
}

func (g *gateSched) swapTotal() int {
	g.mu.Lock()
	defer g.mu.Unlock()
	n := 0
	for _, v := range g.swaps {
		n += v
	}
	return n
}

// settle waits until the set of waiting parties has been stable for the given time.
func (g *gateSched) settle(d time.Duration) []string {
	last := ""
	stableSince := time.Now()
	deadline := time.Now().Add(2 * time.Second)
	for {
		g.mu.Lock()
		var names []string
		for n := range g.waiting {
			names = append(names, n)
		}
		g.mu.Unlock()
		sort.Strings(names)
		cur := strings.Join(names, ",")
		if cur != last {
			last = cur
			stableSince = time.Now()
		}
		if time.Since(stableSince) >= d || time.Now().After(deadline) {
			return names
		}
		time.Sleep(300 * time.Microsecond)
	}
}

// waitFor blocks until all named parties wait at a gate; returns the first missing one on timeout.
func (g *gateSched) waitFor(names []string, d time.Duration) string {
	deadline := time.Now().Add(d)
	for {
		missing := ""
		g.mu.Lock()
		for _, n := range names {
			if g.waiting[n] == nil {
				missing = n
				break
			}
		}
		g.mu.Unlock()
		if missing == "" || time.Now().After(deadline) {
			return missing
		}
		time.Sleep(200 * time.Microsecond)
	}
}

func (g *gateSched) releaseAll() {
	g.mu.Lock()
	g.active = false
	for n, p := range g.waiting {
		close(p.release)
		delete(g.waiting, n)
	}
	g.mu.Unlock()
}

type gateScenario struct {
	Cfg     Config   `json:"cfg"`
	Writers [][][]Op `json:"writers"` // writer -> batches -> ops
}

type gateRun struct {
	branching []int
	trace     []string
	msg       string
	harness   string
}

// runGateSchedule executes the scenario under one schedule (choice index per step).
// gateReplayTrace, when set, makes runGateSchedule follow a recorded introduction order by party
// name (waiting up to 5 s for each party to reach its gate) instead of choice indexes.
var gateReplayTrace []string

func runGateSchedule(sc gateScenario, schedule []int, maxSteps int, wrap bool) (res gateRun) {
	dir, err := os.MkdirTemp(os.Getenv("VERIF_SCRATCH"), "gate.")
	if err != nil {
		res.harness = err.Error()
		return
	}
	defer os.RemoveAll(dir)
	g := &gateSched{waiting: map[string]*gateParty{}, names: map[uint64]string{}, swaps: map[string]int{}, arrived: make(chan struct{}, 1)}
	InstallHook(HookPlan{})
	SetOnPoint(g.onPoint)
	defer func() { SetOnPoint(nil); ClearHook() }()
	idx, err := sc.Cfg.Create(dir+"/idx", WorldMapping())
	if err != nil {
		res.harness = "create: " + err.Error()
		return
	}
	_ = WaitPersisted(idx, 20*time.Second)
	g.mu.Lock()
	g.active = true
	g.mu.Unlock()
	var wg sync.WaitGroup
	defer func() {
		g.releaseAll()
		wg.Wait()
		idx.Close()
	}()
	werr := make(chan error, len(sc.Writers))
	for w, batches := range sc.Writers {
		wg.Add(1)
		go func(w int, batches [][]Op) {
			defer wg.Done()
			g.mu.Lock()
			g.names[goid()] = fmt.Sprintf("writer%d", w)
			g.mu.Unlock()
			for _, ops := range batches {
				if err := ApplyBatch(idx, ops); err != nil {
					werr <- err
					return
				}
			}
			werr <- nil
		}(w, batches)
	}
	model := NewState()
	next := make([]int, len(sc.Writers)) // next batch index per writer
	adv, _ := idx.Advanced()
	type frozen struct {
		r      index.IndexReader
		digest string
		step   int
	}
	var frozens []frozen
	defer func() {
		for _, f := range frozens {
			f.r.Close()
		}
	}()
	ids := append([]string{}, DocIDs[:4]...)
	for step := 0; step < maxSteps; step++ {
		// every writer that still has a batch to submit must reach its gate (however slow the
		// machine is); persist and merge parties arrive on their own and get a short settle
		var required []string
		for w := range sc.Writers {
			if next[w] < len(sc.Writers[w]) {
				required = append(required, fmt.Sprintf("writer%d", w))
			}
		}
		if missing := g.waitFor(required, 60*time.Second); missing != "" {
			res.harness = fmt.Sprintf("%s did not reach its gate within 60s at step %d (trace %v)", missing, step, res.trace)
			return
		}
		names := g.settle(4 * time.Millisecond)
		if gateReplayTrace != nil {
			if step >= len(gateReplayTrace) {
				break
			}
			if missing := g.waitFor([]string{gateReplayTrace[step]}, 5*time.Second); missing != "" {
				res.harness = fmt.Sprintf("replay: %s did not reach its gate at step %d (the recorded order is not reproducible in this run; trace so far %v)", missing, step, res.trace)
				return
			}
			names = []string{gateReplayTrace[step]}
		}
		if len(names) == 0 {
			break // all batches introduced and no persist or merge pending
		}
		choice := 0
		if step < len(schedule) && gateReplayTrace == nil {
			choice = schedule[step]
		}
		if wrap {
			choice %= len(names)
		}
		if choice >= len(names) {
			res.harness = "infeasible" // the set of waiting parties differs from the run that produced this schedule
			return
		}
		res.branching = append(res.branching, len(names))
		name := names[choice]
		res.trace = append(res.trace, name)
		before := g.swapTotal()
		g.mu.Lock()
		party := g.waiting[name]
		delete(g.waiting, name)
		g.mu.Unlock()
		close(party.release)
		// wait for the root swap of that introduction
		deadline := time.Now().Add(60 * time.Second)
		for g.swapTotal() == before {
			if time.Now().After(deadline) {
				// progress is not C04's subject: inconclusive, not a violation
				res.harness = fmt.Sprintf("step %d: released %s but no root swap happened within 60s (trace %v)", step, name, res.trace)
				return
			}
			time.Sleep(100 * time.Microsecond)
		}
		if strings.HasPrefix(name, "writer") {
			w, _ := strconv.Atoi(strings.TrimPrefix(name, "writer"))
			model.Apply(sc.Writers[w][next[w]])
			next[w]++
		}
		// the whole observable state must equal the model after exactly the released batches
		obs, err := Observe(idx, ids, InternalKeys)
		if err != nil {
			res.msg = fmt.Sprintf("step %d after %s: %v (trace %v)", step, name, err, res.trace)
			return
		}
		if d := obs.DiffModel(model, ids, InternalKeys); d != "" {
			res.msg = fmt.Sprintf("step %d after releasing %s (introduction order %v): %s", step, name, res.trace, d)
			return
		}
		// hold a reader from (almost) every step and re-check all of them at the end
		if len(frozens) < 6 {
			if r, err := adv.Reader(); err == nil {
				dg, problem := readerDigest(r, ids, InternalKeys)
				if problem != "" {
					r.Close()
					res.msg = fmt.Sprintf("step %d after %s: reader: %s", step, name, problem)
					return
				}
				frozens = append(frozens, frozen{r, dg, step})
			}
		}
	}
	for _, f := range frozens {
		again, problem := readerDigest(f.r, ids, InternalKeys)
		if problem != "" || again != f.digest {
			res.msg = fmt.Sprintf("the reader taken after step %d (%s) changed: %s\n then %s\n now  %s (introduction order %v)", f.step, res.trace[f.step], problem, f.digest, again, res.trace)
			return
		}
	}
	g.releaseAll()
	for range sc.Writers {
		select {
		case err := <-werr:
			if err != nil {
				res.msg = "writer failed: " + err.Error()
				return
			}
		case <-time.After(20 * time.Second):
			res.msg = fmt.Sprintf("a writer did not finish after all gates were opened (trace %v)", res.trace)
			return
		}
	}
	return
}

func genGateScenario(t *rapid.T) gateScenario {
	sc := gateScenario{Cfg: Config{Engine: EngScorchDisk, UnsafeBatch: true}}
	sc.Cfg.Workers = rapid.SampledFrom([]int{0, 1, 2}).Draw(t, "workers")
	if sc.Cfg.Workers > 0 {
		sc.Cfg.MaxMemMerge = rapid.SampledFrom([]int{1, 4096}).Draw(t, "maxmem")
	}
	sc.Cfg.MaxSegPerTier = rapid.SampledFrom([]int{1, 2}).Draw(t, "tier")
	sc.Cfg.FloorSegSize = 1
	sc.Cfg.SegPerMerge = 2
	sc.Cfg.KeepSnapshots = 1
	nw := 2
	for w := 0; w < nw; w++ {
		var batches [][]Op
		for b := 0; b < 2; b++ {
			n := rapid.IntRange(1, 3).Draw(t, "nops")
			var ops []Op
			for i := 0; i < n; i++ {
				id := rapid.SampledFrom(DocIDs[:4]).Draw(t, "id")
				if rapid.IntRange(0, 3).Draw(t, "del") == 0 {
					ops = append(ops, Op{Kind: OpDelete, ID: id})
				} else {
					ops = append(ops, Op{Kind: OpIndex, ID: id, Doc: Doc{"t": {S: []string{genWords(t, "w", 1, 2)}}, "k": {S: []string{fmt.Sprintf("w%db%d", w, b)}}}})
				}
			}
			ops = append(ops, Op{Kind: OpSetInternal, ID: InternalKeys[w], Val: fmt.Sprintf("b%d", b)})
			batches = append(batches, ops)
		}
		sc.Writers = append(sc.Writers, batches)
	}
	return sc
}

// nextSchedule advances a schedule depth-first given the branching of the last run.
func nextSchedule(schedule []int, branching []int) []int {
	s := make([]int, len(branching))
	copy(s, schedule)
	for i := len(branching) - 1; i >= 0; i-- {
		if s[i]+1 < branching[i] {
			s[i]++
			return s[:i+1]
		}
	}
	return nil
}

func TestC04Gate(t *testing.T) {
	ev := Ev("C04")
	ev.SetRule("gate mode: 2 writers x 2 batches over 4 shared ids on scorch disk (unsafe batch, in-memory and file merges enabled); every batch, persist, in-memory-merge and file-merge introduction blocks at its hook point and a scheduler releases them one at a time; after every release the complete observable state (DocCount, documents, match-all, doc-id query, internals) must equal the model after exactly the released batches, and readers taken after each step must return identical digests at the end; quick: 40 sampled schedules per scenario, thorough: depth-first enumeration of all schedules (<=12 steps, bounded at 4000 per scenario, exhaustive flag when the tree was finished)")
	maxSteps := 12
	bound := 40
	if thorough() {
		bound = 4000
	}
	checkPropN(t, "C04", 3, func(t *rapid.T) {
		sc := genGateScenario(t)
		schedule := []int{}
		runs, infeasible := 0, 0
		exhaustive := false
		seen := map[string]bool{}
		for runs < bound {
			if !thorough() && runs > 0 {
				// sampled: random choice indexes (mod branching at run time is not possible, so draw small indexes)
				schedule = make([]int, maxSteps)
				for i := range schedule {
					schedule[i] = rapid.IntRange(0, 3).Draw(t, "choice")
				}
			}
			res := runGateSchedule(sc, schedule, maxSteps, !thorough())
			runs++
			if res.harness == "infeasible" {
				infeasible++
				if thorough() {
					schedule = nextSchedule(schedule, res.branching)
					if schedule == nil {
						exhaustive = true
						break
					}
				}
				continue
			}
			if res.harness != "" {
				t.Fatalf("harness: %s (scenario %s)", res.harness, canonJSON(sc))
			}
			if res.msg != "" {
				writeReplayJSON("C04", map[string]interface{}{"scenario": sc, "schedule": schedule, "trace": res.trace})
				t.Fatalf("scenario %s: %s", canonJSON(sc), res.msg)
			}
			key := strings.Join(res.trace, ">")
			if !seen[key] {
				seen[key] = true
				nt := len(res.trace) >= 5 && strings.Contains(key, "persist") && (strings.Contains(key, "merge"))
				ev.Case(nt, map[string]interface{}{"sc": sc, "trace": res.trace}, map[string]interface{}{"cfg": sc.Cfg, "introduction_order": res.trace}, "gate-mode")
			}
			if thorough() {
				schedule = nextSchedule(schedule, res.branching)
				if schedule == nil {
					exhaustive = true
					break
				}
			}
		}
		ev.Class("gate-schedules-run", runs)
		ev.Class("gate-schedules-infeasible", infeasible)
		if exhaustive {
			ev.Class("gate-scenarios-enumerated-exhaustively", 1)
		}
	})
}

// TestC04Replay re-runs a saved gate-mode case (VERIF_REPLAY=<file>) by its recorded introduction order.
func TestC04Replay(t *testing.T) {
	path := os.Getenv("VERIF_REPLAY")
	if path == "" {
		t.Skip("no VERIF_REPLAY")
	}
	raw, err := os.ReadFile(path)
	if err != nil {
		t.Fatalf("harness: %v", err)
	}
	var c struct {
		Scenario gateScenario `json:"scenario"`
		Trace    []string     `json:"trace"`
	}
	if err := json.Unmarshal(raw, &c); err != nil {
		t.Fatalf("harness: %v", err)
	}
	gateReplayTrace = c.Trace
	defer func() { gateReplayTrace = nil }()
	for i := 0; i < 5; i++ {
		res := runGateSchedule(c.Scenario, nil, len(c.Trace), false)
		if res.msg != "" {
			t.Fatalf("scenario %s: %s", canonJSON(c.Scenario), res.msg)
		}
		if res.harness != "" {
			t.Logf("attempt %d: %s", i, res.harness)
		}
	}
}
