package harness

import (
	"fmt"
	"sort"
	"strings"
	"testing"

	"github.com/blevesearch/bleve/v2"
	"github.com/blevesearch/bleve/v2/search/searcher"
	"pgregory.net/rapid"
)

// C02 — a search returns exactly the live documents that satisfy the query.

type searchOpts struct {
	ScoreNone bool
	Locations bool
	Explain   bool
}

func (o searchOpts) String() string {
	return fmt.Sprintf("score-none=%v locations=%v explain=%v", o.ScoreNone, o.Locations, o.Explain)
}

func runQuery(idx bleve.Index, q *Q, o searchOpts, size int) (ids []string, total uint64, rejected bool, err error) {
	req := bleve.NewSearchRequestOptions(q.Bleve(), size, 0, o.Explain)
	req.SortBy([]string{"_id"})
	req.IncludeLocations = o.Locations
	if o.ScoreNone {
		req.Score = "none"
	}
	if verr := req.Validate(); verr != nil {
		return nil, 0, true, nil
	}
	res, err := SearchWatchdog(idx, req)
	if err != nil {
		return nil, 0, false, err
	}
	for _, h := range res.Hits {
		ids = append(ids, h.ID)
	}
	return ids, res.Total, false, nil
}

// judge compares a hit list with the reference evaluation.
func judge(q *Q, model *State, hits []string, total uint64) (string, int, int) {
	seen := map[string]bool{}
	for _, id := range hits {
		if seen[id] {
			return fmt.Sprintf("document %s returned twice (hits %v)", id, hits), 0, 0
		}
		seen[id] = true
		if _, live := model.Docs[id]; !live {
			return fmt.Sprintf("hit %s is not a live document (hits %v)", id, hits), 0, 0
		}
	}
	if int(total) != len(hits) {
		return fmt.Sprintf("Total=%d but %d hits returned (Size covers the corpus)", total, len(hits)), 0, 0
	}
	yes, no := 0, 0
	for _, id := range model.LiveIDs() {
		switch Eval(q, id, model.Docs[id]) {
		case Yes:
			yes++
			if !seen[id] {
				return fmt.Sprintf("live document %s=%s satisfies the query but is missing (hits %v)", id, model.Docs[id], hits), 0, 0
			}
		case No:
			no++
			if seen[id] {
				return fmt.Sprintf("document %s=%s does not satisfy the query but was returned (hits %v)", id, model.Docs[id], hits), 0, 0
			}
		}
	}
	return "", yes, no
}

func c02QueryClasses(q *Q, o searchOpts) []string {
	var cl []string
	kinds := q.Kinds()
	for k := range kinds {
		cl = append(cl, "kind:"+k)
	}
	q.Walk(func(x *Q) {
		terms := 0
		for _, c := range x.Children {
			if c.Kind == "term" {
				terms++
			}
		}
		if x.Kind == "conj" && terms >= 2 && terms == len(x.Children) {
			cl = append(cl, "all-term-conjunction")
		}
		if x.Kind == "disj" && terms >= 2 && terms == len(x.Children) {
			cl = append(cl, "all-term-disjunction")
		}
		if x.Kind == "disj" && len(x.Children) >= 8 {
			cl = append(cl, "wide-disjunction")
		}
		if x.Kind == "boolean" && len(x.MustNot) > 0 {
			cl = append(cl, "must-not")
		}
		if x.Kind == "boolean" && x.Filter != nil {
			cl = append(cl, "filter-clause")
		}
	})
	sort.Strings(cl)
	out := cl[:0]
	for i, c := range cl {
		if i == 0 || cl[i-1] != c {
			out = append(out, c)
		}
	}
	return out
}

func TestC02Search(t *testing.T) {
	ev := Ev("C02")
	ev.SetRule("rapid: corpus = generated history (updates, deletes, re-creations, optional reopen/force-merge) on a drawn engine (scorch mem/disk zap v11-17, upsidedown gtreap/boltdb); " +
		"query trees of depth<=3 over all leaf kinds; each query run under all 8 (score none, include locations, explain) combinations with Size>=corpus; " +
		"oracle = independent 3-valued reference evaluator over harness-computed tokens (Yes docs must be hits, No docs must not, no duplicates, Total==len(hits)) and identical hit sets across the 8 option combinations; " +
		"non-trivial = query has a compound node, >=1 Yes and >=1 No live doc, and the corpus overwrote or deleted a live doc; distinct = hash of (config, history, query)")
	ev.Assume("text values are lower-case ASCII words so analysis = strings.Fields; fuzzy matches that need a transposition are not judged (scorch counts it as 1 edit, upsidedown as 2)")
	checkPropN(t, "C02", 400, func(t *rapid.T) {
		old := searcher.DisjunctionHeapTakeover
		searcher.DisjunctionHeapTakeover = rapid.SampledFrom([]int{2, 10}).Draw(t, "heapTakeover")
		defer func() { searcher.DisjunctionHeapTakeover = old }()
		co := CorpusOpts{}.GenBig(t)
		c := BuildCorpus(t, co)
		g := QGen{IDs: co.IDs}
		nq := 6
		for qi := 0; qi < nq; qi++ {
			var q *Q
			if shape := rapid.IntRange(0, 5).Draw(t, "queryShape"); shape == 0 {
				q = g.FrequentCompound(t, fmt.Sprintf("fq%d", qi))
			} else if shape == 1 {
				q = g.RareTerms(t, fmt.Sprintf("rq%d", qi))
			} else {
				q = g.Tree(t, fmt.Sprintf("q%d", qi), 3)
			}
			ctxDump = func() string {
				return fmt.Sprintf("C02 query %s on %s, live docs %v, history %s", q, c.Cfg, c.Model.Docs, canonJSON(c.Steps))
			}
			var base []string
			var yes, no int
			rejected := false
			for oi := 0; oi < 8; oi++ {
				o := searchOpts{ScoreNone: oi&1 != 0, Locations: oi&2 != 0, Explain: oi&4 != 0}
				hits, total, rej, err := runQuery(c.Idx, q, o, 50)
				if rej {
					rejected = true
					break
				}
				if err != nil {
					t.Fatalf("query %s (%s) on %s failed: %v", q, o, c.Cfg, err)
				}
				msg, y, n := judge(q, c.Model, hits, total)
				if msg != "" {
					t.Fatalf("query %s (%s) on %s: %s", q, o, c.Cfg, msg)
				}
				if oi == 0 {
					base, yes, no = hits, y, n
				} else if strings.Join(base, ",") != strings.Join(hits, ",") {
					t.Fatalf("query %s on %s: hits differ with options: default %v, %s %v", q, c.Cfg, base, o, hits)
				}
			}
			if rejected {
				ev.Class("rejected-by-validate", 1)
				continue
			}
			nt := q.HasCompound() && yes >= 1 && no >= 1 && c.Touched
			canon := map[string]interface{}{"cfg": c.Cfg, "steps": c.Steps, "query": q.String()}
			sample := map[string]interface{}{"cfg": c.Cfg, "nsteps": len(c.Steps), "live": c.Model.LiveIDs(), "query": q.String(), "hits": base, "yes": yes, "no": no}
			cl := append(c02QueryClasses(q, searchOpts{}), "engine:"+c.Cfg.Engine)
			if searcher.DisjunctionHeapTakeover == 2 {
				cl = append(cl, "heap-takeover=2")
			}
			ev.Case(nt, canon, sample, cl...)
		}
	})
}
