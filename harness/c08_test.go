package harness

import (
	"bytes"
	"context"
	"encoding/binary"
	"fmt"
	"runtime/debug"
	"sort"
	"testing"

	"github.com/blevesearch/bleve/v2/search"
	index "github.com/blevesearch/bleve_index_api"
	"pgregory.net/rapid"
)

// C08 — searchers yield ascending ids; Advance lands on the first match at/after target.

type c08Call struct {
	Advance bool   `json:"advance,omitempty"`
	Target  string `json:"target,omitempty"` // hex of the internal id
}

type searcherEnv struct {
	c      *Corpus
	reader index.IndexReader
	opts   search.SearcherOptions
}

func (e *searcherEnv) build(q *Q) (s search.Searcher, sctx *search.SearchContext, err error) {
	defer func() {
		if p := recover(); p != nil {
			err = fmt.Errorf("panic building searcher: %v\n%s", p, debug.Stack())
		}
	}()
	s, err = q.Bleve().Searcher(context.Background(), e.reader, e.c.Idx.Mapping(), e.opts)
	if err != nil {
		return nil, nil, err
	}
	sctx = &search.SearchContext{
		DocumentMatchPool: search.NewDocumentMatchPool(s.DocumentMatchPoolSize()+4, 0),
		IndexReader:       e.reader,
	}
	return s, sctx, nil
}

func callSearcher(f func() (*search.DocumentMatch, error)) (id []byte, err error) {
	defer func() {
		if p := recover(); p != nil {
			err = fmt.Errorf("panic: %v\n%s", p, debug.Stack())
		}
	}()
	dm, err := f()
	if err != nil || dm == nil {
		return nil, err
	}
	return append([]byte(nil), dm.IndexInternalID...), nil
}

// c08Targets returns candidate Advance targets (sorted) for the engine.
func c08Targets(c *Corpus, reader index.IndexReader) [][]byte {
	var out [][]byte
	if c.Cfg.IsScorch() {
		max := uint64(0)
		for _, s := range c.Steps {
			for _, op := range s.Ops {
				if op.Kind == OpIndex {
					max++
				}
			}
		}
		for n := uint64(0); n <= max+2; n++ {
			b := make([]byte, 8)
			binary.BigEndian.PutUint64(b, n)
			out = append(out, b)
		}
		b := make([]byte, 8)
		binary.BigEndian.PutUint64(b, max+1000)
		out = append(out, b)
		return out
	}
	for _, s := range []string{"c", "d", "d0", "d05", "d1", "d15", "d2", "d25", "d3", "d35", "d4", "d45", "d5", "d55", "d6", "d65", "d7", "d75", "e"} {
		out = append(out, []byte(s))
	}
	return out
}

// enumerate returns the Next-only enumeration of q ("" message when fine).
func (e *searcherEnv) enumerate(q *Q) (E [][]byte, msg string) {
	s, sctx, err := e.build(q)
	if err != nil {
		return nil, fmt.Sprintf("building the searcher failed: %v", err)
	}
	defer s.Close()
	for {
		id, err := callSearcher(func() (*search.DocumentMatch, error) { return s.Next(sctx) })
		if err != nil {
			return nil, fmt.Sprintf("Next-only enumeration failed after %x: %v", E, err)
		}
		if id == nil {
			return E, ""
		}
		if len(E) > 0 && bytes.Compare(E[len(E)-1], id) >= 0 {
			return nil, fmt.Sprintf("Next returned id %x after %x (not strictly increasing)", id, E[len(E)-1])
		}
		E = append(E, id)
		if len(E) > 1000 {
			return nil, "Next-only enumeration does not end"
		}
	}
}

// runProgram executes a concrete program on a fresh searcher for q and compares it with
// the simulation on the Next-only enumeration.  Calls whose target is not beyond the last
// returned id / previous target (possible when the program was drawn for another query
// during minimisation) are dropped: they are outside the contract.
func (e *searcherEnv) runProgram(q *Q, prog []c08Call) (msg string, skipped bool) {
	E, m := e.enumerate(q)
	if m != "" {
		return m, false
	}
	s, sctx, err := e.build(q)
	if err != nil {
		return fmt.Sprintf("building the searcher failed: %v", err), false
	}
	defer s.Close()
	pos := 0
	var floor []byte
	done := false
	var ran []c08Call
	for ci, call := range prog {
		var got []byte
		var err error
		if call.Advance {
			var tgt []byte
			fmt.Sscanf(call.Target, "%x", &tgt)
			if floor != nil && bytes.Compare(tgt, floor) <= 0 {
				continue
			}
			floor = tgt
			np := pos + sort.Search(len(E)-pos, func(i int) bool { return bytes.Compare(E[pos+i], tgt) >= 0 })
			if done {
				np = len(E)
			}
			if np > pos {
				skipped = true
			}
			pos = np
			got, err = callSearcher(func() (*search.DocumentMatch, error) { return s.Advance(sctx, index.IndexInternalID(tgt)) })
		} else {
			got, err = callSearcher(func() (*search.DocumentMatch, error) { return s.Next(sctx) })
		}
		ran = append(ran, call)
		if err != nil {
			return fmt.Sprintf("program %s: call %d failed: %v", canonJSON(ran), ci, err), skipped
		}
		var want []byte
		if pos < len(E) {
			want = E[pos]
			pos++
		} else {
			done = true
		}
		if !bytes.Equal(got, want) {
			return fmt.Sprintf("program %s: last call returned %x, the Next-only enumeration %x says %x", canonJSON(ran), got, E, want), skipped
		}
		if got != nil {
			floor = got
		}
	}
	return "", skipped
}

func TestC08Searchers(t *testing.T) {
	ev := Ev("C08")
	ev.SetRule("rapid: corpus from a generated history (1-4+ segments with tombstones on scorch mem/disk zap v11-17, or upsidedown gtreap/boltdb); query tree from the full family built with query.Searcher exactly as SearchInContext does, under drawn searcher options (score none => unadorned optimisations, term vectors, explain) and DisjunctionHeapTakeover in {2,10}; " +
		"a program of 1-25 Next/Advance(t) calls with forward targets t > last returned id drawn from the hits of the query, the hits of its sub-clauses (where clause cursors rest), and every doc number incl. segment starts, tombstones, last+1, last+1000 (scorch) or every id and in-between strings (upsidedown); " +
		"oracle: the Next-only enumeration E of a fresh identical searcher is strictly increasing, and the program must behave as the simulation on E (Next=successor, Advance(t)=first e>=t, nil after the end, nil stays nil); " +
		"non-trivial = compound searcher, >=1 Advance that skips >=1 match, and >=2 matches in E")
	ev.Assume("targets are forward only (the contract); internal ids are compared bytewise; E comes from the same implementation (its truth is C02's subject)")
	checkPropN(t, "C08", 700, func(t *rapid.T) {
		oldTakeover := setHeapTakeover(rapid.SampledFrom([]int{2, 10}).Draw(t, "heapTakeover"))
		defer setHeapTakeover(oldTakeover)
		co := CorpusOpts{MaxSteps: 10}.GenBig(t)
		c := BuildCorpus(t, co)
		adv, err := c.Idx.Advanced()
		if err != nil {
			t.Fatalf("Advanced: %v", err)
		}
		reader, err := adv.Reader()
		if err != nil {
			t.Fatalf("Reader: %v", err)
		}
		defer reader.Close()
		env := &searcherEnv{c: c, reader: reader}
		switch rapid.IntRange(0, 3).Draw(t, "opts") {
		case 0:
			env.opts = search.SearcherOptions{Score: "none"}
		case 1:
			env.opts = search.SearcherOptions{IncludeTermVectors: true}
		case 2:
			env.opts = search.SearcherOptions{Explain: true}
		}
		targets := c08Targets(c, reader)
		// leaf kinds that usually match several documents are over-weighted so that programs have matches to skip
		g := QGen{LeafKinds: append(append([]string{}, allLeafKinds...), "all", "prefix", "prefix", "term", "wildcard", "match", "termrange", "docid", "docid"), IDs: co.IDs}
		for qi := 0; qi < 3; qi++ {
			var q *Q
			if shape := rapid.IntRange(0, 5).Draw(t, "queryShape"); shape <= 1 {
				q = g.FrequentCompound(t, fmt.Sprintf("fq%d", qi))
			} else if shape == 2 {
				// a bare leaf: the readers themselves (term, doc-id, match-all readers of either
				// engine), with no compound searcher above them to re-advance and hide a slip
				q = g.Leaf(t, fmt.Sprintf("lq%d", qi))
				if rapid.IntRange(0, 2).Draw(t, "bareDocID") == 0 {
					// an id set with gaps: some documents of the index lie between its members
					pool := g.IDs
					if pool == nil {
						pool = DocIDs
					}
					q = (&Q{Kind: "docid", IDs: rapid.SliceOfNDistinct(rapid.SampledFrom(pool), 2, 5, rapid.ID[string]).Draw(t, "bareIDs")}).fix()
				}
			} else {
				q = g.Tree(t, fmt.Sprintf("q%d", qi), 3)
			}
			if v, ok := q.Bleve().(interface{ Validate() error }); ok && v.Validate() != nil {
				continue
			}
			ctxDump = func() string { return fmt.Sprintf("C08 query %s on %s opts %+v", q, c.Cfg, env.opts) }
			E, msg := env.enumerate(q)
			if msg != "" {
				t.Fatalf("query %s on %s (%+v) docs %v: %s", q, c.Cfg, env.opts, c.Model.Docs, msg)
			}
			// the hits of the query's sub-clauses: the positions at which clause cursors rest
			var subHits [][]byte
			q.Walk(func(x *Q) {
				if x == q || len(subHits) > 200 {
					return
				}
				if v, ok := x.Bleve().(interface{ Validate() error }); ok && v.Validate() != nil {
					return
				}
				if sub, m := env.enumerate(x); m == "" {
					subHits = append(subHits, sub...)
				}
			})
			// ... preferring those that are not hits of the whole query: a clause cursor rests
			// there while the answer lies elsewhere
			inE := map[string]bool{}
			for _, e := range E {
				inE[string(e)] = true
			}
			var subOnly [][]byte
			for _, h := range subHits {
				if !inE[string(h)] {
					subOnly = append(subOnly, h)
				}
			}
			if len(subOnly) > 0 {
				subHits = subOnly
			}
			sort.Slice(subHits, func(i, j int) bool { return bytes.Compare(subHits[i], subHits[j]) < 0 })
			anySkipped := false
			var prog []c08Call
			for pi := 0; pi < 3; pi++ {
				// draw a concrete forward program, biased towards existing matches
				prog = nil
				pos := 0
				var floor []byte
				n := rapid.IntRange(1, 25).Draw(t, "ncalls")
				for ci := 0; ci < n; ci++ {
					if rapid.Bool().Draw(t, "advance") {
						lo := 0
						if floor != nil {
							lo = sort.Search(len(targets), func(i int) bool { return bytes.Compare(targets[i], floor) > 0 })
						}
						var tgt []byte
						slo := 0
						if floor != nil {
							slo = sort.Search(len(subHits), func(i int) bool { return bytes.Compare(subHits[i], floor) > 0 })
						}
						if pos < len(E) && rapid.Bool().Draw(t, "tgtMatch") {
							tgt = E[rapid.IntRange(pos, len(E)-1).Draw(t, "tgtE")]
						} else if slo < len(subHits) && rapid.Bool().Draw(t, "tgtSub") {
							// a hit of some sub-clause (for instance of a must-not clause), preferably a near one
							hi := len(subHits) - 1
							if hi > slo+3 && rapid.Bool().Draw(t, "tgtSubNear") {
								hi = slo + 3
							}
							tgt = subHits[rapid.IntRange(slo, hi).Draw(t, "tgtS")]
						} else if lo < len(targets) {
							tgt = targets[rapid.IntRange(lo, len(targets)-1).Draw(t, "tgt")]
						} else {
							continue
						}
						if floor != nil && bytes.Compare(tgt, floor) <= 0 {
							continue
						}
						floor = tgt
						prog = append(prog, c08Call{Advance: true, Target: fmt.Sprintf("%x", tgt)})
						pos += sort.Search(len(E)-pos, func(i int) bool { return bytes.Compare(E[pos+i], tgt) >= 0 })
					} else {
						prog = append(prog, c08Call{})
					}
					if pos < len(E) {
						floor = E[pos]
						pos++
					}
				}
				msg, skipped := env.runProgram(q, prog)
				if msg != "" {
					p := append([]c08Call(nil), prog...)
					qmin := MinimizeQ(q, func(v *Q) bool { m, _ := env.runProgram(v, p); return m != "" })
					mmin, _ := env.runProgram(qmin, p)
					t.Fatalf("query %s on %s (%+v): %s\nminimised query %s: %s\nlive docs %v", q, c.Cfg, env.opts, msg, qmin, mmin, c.Model.Docs)
				}
				anySkipped = anySkipped || skipped
			}
			nt := q.HasCompound() && anySkipped && len(E) >= 2
			segs, del := SegmentShape(c.Idx)
			cl := []string{"engine:" + c.Cfg.Engine, fmt.Sprintf("opts:score=%q,tv=%v,explain=%v", env.opts.Score, env.opts.IncludeTermVectors, env.opts.Explain)}
			if segs > 1 {
				cl = append(cl, "multi-segment")
			}
			if del > 0 {
				cl = append(cl, "tombstones")
			}
			for k := range q.Kinds() {
				cl = append(cl, "kind:"+k)
			}
			canon := map[string]interface{}{"cfg": c.Cfg, "steps": c.Steps, "q": q.String(), "opts": cl[1], "prog": prog}
			sample := map[string]interface{}{"cfg": c.Cfg, "q": q.String(), "opts": cl[1], "E": fmt.Sprintf("%x", E), "last_program": prog, "segments": segs, "tombstones": del}
			ev.Case(nt, canon, sample, cl...)
		}
	})
}
