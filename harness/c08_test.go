package harness

import (
	"bytes"
	"context"
	"encoding/binary"
	"fmt"
	"runtime/debug"
	"sort"
	"testing"

	"github.com/blevesearch/bleve/v2/search"
	index "github.com/blevesearch/bleve_index_api"
	"pgregory.net/rapid"
)

// C08 — searchers yield ascending ids; Advance lands on the first match at/after target.

type c08Call struct {
	Advance bool   `json:"advance,omitempty"`
	Target  string `json:"target,omitempty"` // hex of the internal id
}

type searcherEnv struct {
	c      *Corpus
	reader index.IndexReader
	opts   search.SearcherOptions
}

func (e *searcherEnv) build(q *Q) (s search.Searcher, sctx *search.SearchContext, err error) {
	defer func() {
		if p := recover(); p != nil {
			err = fmt.Errorf("panic building searcher: %v\n%s", p, debug.Stack())
		}
	}()
	s, err = q.Bleve().Searcher(context.Background(), e.reader, e.c.Idx.Mapping(), e.opts)
	if err != nil {
		return nil, nil, err
	}
	sctx = &search.SearchContext{
		DocumentMatchPool: search.NewDocumentMatchPool(s.DocumentMatchPoolSize()+4, 0),
		IndexReader:       e.reader,
	}
	return s, sctx, nil
}

func callSearcher(f func() (*search.DocumentMatch, error)) (id []byte, err error) {
	defer func() {
		if p := recover(); p != nil {
			err = fmt.Errorf("panic: %v\n%s", p, debug.Stack())
		}
	}()
	dm, err := f()
	if err != nil || dm == nil {
		return nil, err
	}
	return append([]byte(nil), dm.IndexInternalID...), nil
}

// c08Targets returns candidate Advance targets (sorted) for the engine.
func c08Targets(c *Corpus, reader index.IndexReader) [][]byte {
	var out [][]byte
	if c.Cfg.IsScorch() {
		max := uint64(0)
		for _, s := range c.Steps {
			for _, op := range s.Ops {
				if op.Kind == OpIndex {
					max++
				}
			}
		}
		for n := uint64(0); n <= max+2; n++ {
			b := make([]byte, 8)
			binary.BigEndian.PutUint64(b, n)
			out = append(out, b)
		}
		b := make([]byte, 8)
		binary.BigEndian.PutUint64(b, max+1000)
		out = append(out, b)
		return out
	}
	for _, s := range []string{"c", "d", "d0", "d05", "d1", "d15", "d2", "d25", "d3", "d35", "d4", "d45", "d5", "d55", "d6", "d65", "d7", "d75", "e"} {
		out = append(out, []byte(s))
	}
	return out
}

func TestC08Searchers(t *testing.T) {
	ev := Ev("C08")
	ev.SetRule("rapid: corpus from a generated history (1-4+ segments with tombstones on scorch mem/disk zap v11-17, or upsidedown gtreap/boltdb); query tree from the full family built with query.Searcher exactly as SearchInContext does, under drawn searcher options (score none => unadorned optimisations, term vectors, explain) and DisjunctionHeapTakeover in {2,10}; " +
		"a program of 1-25 Next/Advance(t) calls with forward targets t > last returned id drawn from every doc number incl. segment starts, tombstones, last+1, last+1000 (scorch) or every id and in-between strings (upsidedown); " +
		"oracle: the Next-only enumeration E of a fresh identical searcher is strictly increasing, and the program must behave as the simulation on E (Next=successor, Advance(t)=first e>=t, nil after the end, nil stays nil); " +
		"non-trivial = compound searcher, >=1 Advance that skips >=1 match, and >=2 matches in E")
	ev.Assume("targets are forward only (the contract); internal ids are compared bytewise; E comes from the same implementation (its truth is C02's subject)")
	checkPropN(t, "C08", 500, func(t *rapid.T) {
		oldTakeover := setHeapTakeover(rapid.SampledFrom([]int{2, 10}).Draw(t, "heapTakeover"))
		defer setHeapTakeover(oldTakeover)
		c := BuildCorpus(t, CorpusOpts{MaxSteps: 7})
		adv, err := c.Idx.Advanced()
		if err != nil {
			t.Fatalf("Advanced: %v", err)
		}
		reader, err := adv.Reader()
		if err != nil {
			t.Fatalf("Reader: %v", err)
		}
		defer reader.Close()
		env := &searcherEnv{c: c, reader: reader}
		switch rapid.IntRange(0, 3).Draw(t, "opts") {
		case 0:
			env.opts = search.SearcherOptions{Score: "none"}
		case 1:
			env.opts = search.SearcherOptions{IncludeTermVectors: true}
		case 2:
			env.opts = search.SearcherOptions{Explain: true}
		}
		targets := c08Targets(c, reader)
		g := QGen{}
		for qi := 0; qi < 3; qi++ {
			q := g.Tree(t, fmt.Sprintf("q%d", qi), 3)
			if v, ok := q.Bleve().(interface{ Validate() error }); ok && v.Validate() != nil {
				continue
			}
			ctxDump = func() string { return fmt.Sprintf("C08 query %s on %s opts %+v", q, c.Cfg, env.opts) }
			// E: Next-only enumeration
			s, sctx, err := env.build(q)
			if err != nil {
				t.Fatalf("building searcher for %s on %s (%+v): %v", q, c.Cfg, env.opts, err)
			}
			var E [][]byte
			for {
				id, err := callSearcher(func() (*search.DocumentMatch, error) { return s.Next(sctx) })
				if err != nil {
					t.Fatalf("Next-only enumeration of %s on %s (%+v): %v", q, c.Cfg, env.opts, err)
				}
				if id == nil {
					break
				}
				if len(E) > 0 && bytes.Compare(E[len(E)-1], id) >= 0 {
					t.Fatalf("query %s on %s (%+v): Next returned id %x after %x (not strictly increasing)", q, c.Cfg, env.opts, id, E[len(E)-1])
				}
				E = append(E, id)
				if len(E) > 1000 {
					t.Fatalf("query %s on %s: enumeration does not end", q, c.Cfg)
				}
			}
			s.Close()
			// programs
			skipped := false
			var prog []c08Call
			for pi := 0; pi < 3; pi++ {
				s, sctx, err := env.build(q)
				if err != nil {
					t.Fatalf("rebuilding searcher: %v", err)
				}
				prog = prog[:0]
				pos := 0 // index into E of the next element Next would return
				var last []byte
				done := false
				n := rapid.IntRange(1, 25).Draw(t, "ncalls")
				for ci := 0; ci < n; ci++ {
					var want []byte
					var got []byte
					var err error
					if rapid.Bool().Draw(t, "advance") {
						// forward target: strictly greater than the last returned id
						lo := 0
						if last != nil {
							lo = sort.Search(len(targets), func(i int) bool { return bytes.Compare(targets[i], last) > 0 })
						}
						if lo >= len(targets) {
							continue
						}
						var tgt []byte
						if pos < len(E) && rapid.Bool().Draw(t, "tgtMatch") {
							tgt = E[rapid.IntRange(pos, len(E)-1).Draw(t, "tgtE")]
						} else {
							tgt = targets[rapid.IntRange(lo, len(targets)-1).Draw(t, "tgt")]
						}
						if last != nil && bytes.Compare(tgt, last) <= 0 {
							continue // E[pos] can equal a floor set by an earlier Advance target
						}
						last = tgt // later targets must also lie beyond this one (forward only)
						prog = append(prog, c08Call{Advance: true, Target: fmt.Sprintf("%x", tgt)})
						np := pos + sort.Search(len(E)-pos, func(i int) bool { return bytes.Compare(E[pos+i], tgt) >= 0 })
						if done {
							np = len(E)
						}
						if np > pos {
							skipped = true
						}
						pos = np
						got, err = callSearcher(func() (*search.DocumentMatch, error) { return s.Advance(sctx, index.IndexInternalID(tgt)) })
					} else {
						prog = append(prog, c08Call{})
						got, err = callSearcher(func() (*search.DocumentMatch, error) { return s.Next(sctx) })
					}
					if err != nil {
						t.Fatalf("query %s on %s (%+v): program %s: call %d failed: %v", q, c.Cfg, env.opts, canonJSON(prog), ci, err)
					}
					if pos < len(E) {
						want = E[pos]
						pos++
					} else {
						done = true
					}
					if !bytes.Equal(got, want) {
						t.Fatalf("query %s on %s (%+v): program %s: call %d returned %x, the Next-only enumeration %x says %x", q, c.Cfg, env.opts, canonJSON(prog), ci, got, E, want)
					}
					if got != nil {
						last = got
					}
				}
				s.Close()
			}
			nt := q.HasCompound() && skipped && len(E) >= 2
			segs, del := SegmentShape(c.Idx)
			cl := []string{"engine:" + c.Cfg.Engine, fmt.Sprintf("opts:score=%q,tv=%v,explain=%v", env.opts.Score, env.opts.IncludeTermVectors, env.opts.Explain)}
			if segs > 1 {
				cl = append(cl, "multi-segment")
			}
			if del > 0 {
				cl = append(cl, "tombstones")
			}
			for k := range q.Kinds() {
				cl = append(cl, "kind:"+k)
			}
			canon := map[string]interface{}{"cfg": c.Cfg, "steps": c.Steps, "q": q.String(), "opts": cl[1], "prog": prog}
			sample := map[string]interface{}{"cfg": c.Cfg, "q": q.String(), "opts": cl[1], "E": fmt.Sprintf("%x", E), "last_program": prog, "segments": segs, "tombstones": del}
			ev.Case(nt, canon, sample, cl...)
		}
	})
}
