module verif/harness

go 1.25.0

require (
	github.com/blevesearch/bleve/v2 v2.0.0
	github.com/blevesearch/bleve_index_api v1.4.0
	github.com/blevesearch/geo v0.2.5
	github.com/blevesearch/scorch_segment_api/v2 v2.4.8
	github.com/blevesearch/upsidedown_store_api v1.0.2
	github.com/couchbase/moss v0.2.0
	go.etcd.io/bbolt v1.4.0
	pgregory.net/rapid v1.3.0
)

require (
	github.com/RoaringBitmap/roaring/v2 v2.14.5 // indirect
	github.com/bits-and-blooms/bitset v1.24.2 // indirect
	github.com/blevesearch/go-metrics v0.0.0-20201227073835-cf1acfcdf475 // indirect
	github.com/blevesearch/go-porterstemmer v1.0.3 // indirect
	github.com/blevesearch/goleveldb v1.0.1 // indirect
	github.com/blevesearch/gtreap v0.1.1 // indirect
	github.com/blevesearch/mmap-go v1.2.0 // indirect
	github.com/blevesearch/segment v0.9.1 // indirect
	github.com/blevesearch/snowballstem v0.9.0 // indirect
	github.com/blevesearch/stempel v0.2.0 // indirect
	github.com/blevesearch/vellum v1.2.0 // indirect
	github.com/blevesearch/zapx/v11 v11.4.3 // indirect
	github.com/blevesearch/zapx/v12 v12.4.3 // indirect
	github.com/blevesearch/zapx/v13 v13.4.3 // indirect
	github.com/blevesearch/zapx/v14 v14.4.3 // indirect
	github.com/blevesearch/zapx/v15 v15.4.3 // indirect
	github.com/blevesearch/zapx/v16 v16.3.4 // indirect
	github.com/blevesearch/zapx/v17 v17.2.0 // indirect
	github.com/couchbase/ghistogram v0.1.0 // indirect
	github.com/golang/snappy v1.0.0 // indirect
	github.com/json-iterator/go v0.0.0-20171115153421-f7279a603ede // indirect
	github.com/mschoch/smat v0.2.0 // indirect
	golang.org/x/sys v0.45.0 // indirect
	golang.org/x/text v0.37.0 // indirect
	google.golang.org/protobuf v1.36.6 // indirect
)

replace github.com/blevesearch/bleve/v2 => /repo
