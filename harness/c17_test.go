package harness

import (
	"regexp"
	"sort"
	"encoding/json"
	"fmt"
	"strconv"
	"strings"
	"testing"
	"time"

	"github.com/blevesearch/bleve/v2"
	"github.com/blevesearch/bleve/v2/mapping"
	"github.com/blevesearch/bleve/v2/search"
	"github.com/blevesearch/bleve/v2/search/query"
	"pgregory.net/rapid"
)

// C17 — queries and requests keep their meaning across JSON and the query-string syntax.

func c17Mapping() mapping.IndexMapping {
	m := WorldMapping()
	m.DefaultField = "t" // bare query-string words search the text field
	return m
}

// wholeSecondDates: bounds that the default (RFC 3339, whole seconds) query date format keeps.
var wholeSecondDates = []time.Time{baseTime, baseTime.Add(time.Second), baseTime.Add(-time.Second), baseTime.Add(24 * time.Hour),
	time.Date(1970, 1, 1, 0, 0, 0, 0, time.UTC), time.Date(2200, 6, 1, 0, 0, 0, 0, time.UTC)}

// addBoosts decorates every node of a query tree with options the Q tree does not carry:
// boosts, and automatic fuzziness on the query kinds that accept it.
func addBoosts(t *rapid.T, q query.Query) {
	if q == nil {
		return
	}
	if bq, ok := q.(query.BoostableQuery); ok && rapid.IntRange(0, 3).Draw(t, "boost?") == 0 {
		bq.SetBoost(rapid.SampledFrom([]float64{0.5, 2, 3.25}).Draw(t, "boost"))
	}
	switch x := q.(type) {
	case *query.FuzzyQuery:
		if rapid.IntRange(0, 2).Draw(t, "autoFuzzy") == 0 {
			x.SetAutoFuzziness(true)
		}
	case *query.MatchQuery:
		if rapid.IntRange(0, 3).Draw(t, "autoFuzzyMatch") == 0 {
			x.SetAutoFuzziness(true)
		}
	case *query.MatchPhraseQuery:
		if rapid.IntRange(0, 3).Draw(t, "autoFuzzyPhrase") == 0 {
			x.SetAutoFuzziness(true)
		}
	case *query.ConjunctionQuery:
		for _, c := range x.Conjuncts {
			addBoosts(t, c)
		}
	case *query.DisjunctionQuery:
		for _, c := range x.Disjuncts {
			addBoosts(t, c)
		}
	case *query.BooleanQuery:
		addBoosts(t, x.Must)
		addBoosts(t, x.Should)
		addBoosts(t, x.MustNot)
		addBoosts(t, x.Filter)
	}
}

func searchNorm(idx bleve.Index, q query.Query) (*NormResult, error) {
	req := bleve.NewSearchRequestOptions(q, 50, 0, false)
	req.SortBy([]string{"-_score", "_id"})
	res, err := SearchWatchdog(idx, req)
	if err != nil {
		return nil, err
	}
	return Normalize(res), nil
}

func TestC17QueryJSON(t *testing.T) {
	ev := Ev("C17")
	ev.SetRule("O1 (rapid): query trees over the JSON-parsable family with boosts -> json -> ParseQuery: json fixpoint and equal normalised results (incl. scores) on a generated corpus, both engines; date bounds at ns resolution only under QueryDateTimeFormat=RFC3339Nano; " +
		"O2: search requests (query x sort strings/objects x size/from x facets x highlight x fields x locations x score x search_after/before) -> json -> parse: json fixpoint and equal results; " +
		"O3: arbitrary strings biased to the lexer alphabet (+ - : \" ~ ^ \\ / * ? > < =, digits, invalid UTF-8) through QueryStringQuery Validate/Parse and Search: error or result, no panic, within the watchdog; " +
		"O4: strings generated from the documented grammar (+/-/optional clauses, field scoping, phrases, fuzziness, boosts, numeric and date comparisons, wildcard, regexp) vs the directly constructed query and the reference evaluator; " +
		"non-trivial = O1/O2 tree has a compound node and >=2 leaf kinds, O3 string has >=3 lexer character classes, O4 string has >=2 clauses with different prefixes and a field scope")
	checkPropN(t, "C17", 800, func(t *rapid.T) {
		nano := rapid.Bool().Draw(t, "nanoFormat")
		oldFmt := query.QueryDateTimeFormat
		dates := wholeSecondDates
		if nano {
			query.QueryDateTimeFormat = time.RFC3339Nano
			dates = DatePool
		}
		defer func() { query.QueryDateTimeFormat = oldFmt }()
		c := BuildCorpus(t, CorpusOpts{Engines: []string{EngScorchMem, EngUDGtreap}, MaxSteps: 4, Mapping: c17Mapping})
		// (JSON cannot carry infinities: encoding/json reports an error for such a bound)
		g := QGen{Dates: dates, Nums: []float64{-2, -1, 0, 0.5, 1, 2, 3, 15, 16, 17, 1e9, -1e9, 5e-324, 1.7976931348623157e308}}
		for qi := 0; qi < 3; qi++ {
			q := g.Tree(t, fmt.Sprintf("q%d", qi), 3)
			bq := q.Bleve()
			addBoosts(t, bq)
			if v, ok := bq.(query.ValidatableQuery); ok && v.Validate() != nil {
				continue
			}
			j, err := json.Marshal(bq)
			if err != nil {
				t.Fatalf("marshal %s: %v", q, err)
			}
			pq, err := query.ParseQuery(j)
			if err != nil {
				t.Fatalf("query %s: its own JSON does not parse: %v\n%s", q, err, j)
			}
			j2, err := json.Marshal(pq)
			if err != nil {
				t.Fatalf("marshal parsed %s: %v", q, err)
			}
			if string(j) != string(j2) {
				t.Fatalf("query %s: JSON is not a fixpoint\n first  %s\n second %s", q, j, j2)
			}
			ctxDump = func() string { return fmt.Sprintf("C17 query %s json %s on %s", q, j, c.Cfg) }
			a, errA := searchNorm(c.Idx, bq)
			b, errB := searchNorm(c.Idx, pq)
			if (errA == nil) != (errB == nil) {
				t.Fatalf("query %s: original err=%v, parsed err=%v (json %s)", q, errA, errB, j)
			}
			if errA == nil {
				if d := DiffNorm(a, b, NormOpts{Tol: 1e-12, ScoreSorted: true, IgnoreSortKeys: true}); d != "" {
					t.Fatalf("query %s on %s: original and JSON-round-tripped query differ: %s\n json %s", q, c.Cfg, d, j)
				}
			}
			kinds := q.Kinds()
			nt := q.HasCompound() && len(kinds) >= 3
			cl := []string{"O1-query-json", "engine:" + c.Cfg.Engine}
			if nano {
				cl = append(cl, "ns-date-format")
			}
			ev.Case(nt, map[string]interface{}{"q": string(j), "steps": c.Steps}, map[string]interface{}{"query": q.String(), "json": json.RawMessage(j)}, cl...)
		}
	})
}

func TestC17RequestJSON(t *testing.T) {
	ev := Ev("C17")
	checkPropN(t, "C17", 300, func(t *rapid.T) {
		c := BuildCorpus(t, CorpusOpts{Engines: []string{EngScorchMem, EngUDGtreap}, MaxSteps: 4, Mapping: c17Mapping, Doc: DocGenOpts{Nums: SmallNums, Dates: wholeSecondDates}})
		g := QGen{Dates: wholeSecondDates, Nums: SmallNums}
		r := GenReq(t, "r", g, 2, SmallNums)
		for i := range r.Facets {
			// date facet bounds travel as RFC 3339 strings: whole seconds only
			for j := range r.Facets[i].Ranges {
				rg := &r.Facets[i].Ranges[j]
				if rg.DMin != nil {
					v := *rg.DMin / 1e9 * 1e9
					rg.DMin = &v
				}
				if rg.DMax != nil {
					v := *rg.DMax / 1e9 * 1e9
					rg.DMax = &v
				}
			}
		}
		req := r.Bleve()
		req.Size = rapid.SampledFrom([]int{0, 1, 3, 10}).Draw(t, "size")
		req.From = rapid.SampledFrom([]int{0, 0, 1, 2}).Draw(t, "from")
		req.Explain = rapid.IntRange(0, 4).Draw(t, "explain") == 0
		if rapid.Bool().Draw(t, "objectSort") {
			var so search.SortOrder
			for _, s := range r.Sort {
				ss := search.ParseSearchSortString(s)
				if sf, ok := ss.(*search.SortField); ok {
					// every option on its own: a request that differs from the compact string form
					// in one option only must still keep that option
					sf.Mode = rapid.SampledFrom([]search.SortFieldMode{search.SortFieldDefault, search.SortFieldMin, search.SortFieldMax}).Draw(t, "sortMode")
					sf.Missing = rapid.SampledFrom([]search.SortFieldMissing{search.SortFieldMissingLast, search.SortFieldMissingFirst}).Draw(t, "sortMissing")
					if rapid.Bool().Draw(t, "sortTyped") {
						switch sf.Field {
						case "n":
							sf.Type = search.SortFieldAsNumber
						case "d":
							sf.Type = search.SortFieldAsDate
						default:
							sf.Type = search.SortFieldAsString
						}
					}
				}
				so = append(so, ss)
			}
			req.SortByCustom(so)
		}
		if !r.ScoreSorted() && rapid.IntRange(0, 2).Draw(t, "paging") == 0 {
			keys := make([]string, len(r.Sort))
			for i, s := range r.Sort {
				switch strings.TrimPrefix(s, "-") {
				case "_id":
					keys[i] = "d3"
				case "n":
					keys[i] = "1"
				case "d":
					keys[i] = "2020-01-02T03:04:05Z"
				default:
					keys[i] = "ab"
				}
			}
			req.From = 0
			if rapid.Bool().Draw(t, "after") {
				req.SetSearchAfter(keys)
			} else {
				req.SetSearchBefore(keys)
			}
		}
		if req.Validate() != nil {
			return
		}
		j, err := json.Marshal(req)
		if err != nil {
			t.Fatalf("marshal request: %v", err)
		}
		var req2 bleve.SearchRequest
		if err := json.Unmarshal(j, &req2); err != nil {
			t.Fatalf("the request's own JSON does not parse: %v\n%s", err, j)
		}
		j2, err := json.Marshal(&req2)
		if err != nil {
			t.Fatalf("marshal parsed request: %v", err)
		}
		if string(j) != string(j2) {
			t.Fatalf("request JSON is not a fixpoint\n first  %s\n second %s", j, j2)
		}
		if len(req.Sort) != len(req2.Sort) {
			t.Fatalf("request %s parses back with %d sort keys instead of %d", j, len(req2.Sort), len(req.Sort))
		}
		for i := range req.Sort {
			if a, b := fmt.Sprintf("%T%+v", req.Sort[i], req.Sort[i]), fmt.Sprintf("%T%+v", req2.Sort[i], req2.Sort[i]); a != b {
				t.Fatalf("sort key %d of the request is %s, after the JSON round trip it is %s\n json %s", i, a, b, j)
			}
		}
		ctxDump = func() string { return fmt.Sprintf("C17 request %s on %s", j, c.Cfg) }
		ra, errA := SearchWatchdog(c.Idx, req)
		rb, errB := SearchWatchdog(c.Idx, &req2)
		if (errA == nil) != (errB == nil) {
			t.Fatalf("request %s: original err=%v, parsed err=%v", j, errA, errB)
		}
		if errA == nil {
			if d := DiffNorm(Normalize(ra), Normalize(rb), NormOpts{Tol: 1e-12}); d != "" {
				t.Fatalf("request on %s: original and JSON-round-tripped request differ: %s\n json %s", c.Cfg, d, j)
			}
		}
		nt := r.Q.HasCompound() && len(r.Q.Kinds()) >= 3
		cl := []string{"O2-request-json"}
		if len(req.SearchAfter)+len(req.SearchBefore) > 0 {
			cl = append(cl, "search-after/before")
		}
		if len(r.Facets) > 0 {
			cl = append(cl, "facets")
		}
		ev.Case(nt, string(j), map[string]interface{}{"request": json.RawMessage(j)}, cl...)
	})
}

// ---------------------------------------------------------------- O3 arbitrary strings

var c17Alphabet = []string{"+", "-", ":", "\"", "~", "^", "\\", "/", "*", "?", ">", "<", "=", " ", " ", "a", "ab", "t", "k", "n", "d", "1", "2", ".", "5", "e",
	"\xff", "\xc3", "é", "\t", "(", ")", "2020-01-02T03:04:05Z", "AND", "OR", "\x00", "'"}

// strings that leave a lexer in the middle of a token (unterminated phrase, dangling escape,
// dangling number) when its input ends
var c17Polluters = []string{"ab \"ba", "\"", "t:\"a b", "ab \\", "\\", "ab\\", "n:>1.", "1.", "a \"b\\", "+", "-", "t:", "a^", "a~", "/ab"}

func genQueryStringNoise(t *rapid.T) string {
	n := rapid.IntRange(0, 14).Draw(t, "len")
	var sb strings.Builder
	for i := 0; i < n; i++ {
		sb.WriteString(rapid.SampledFrom(c17Alphabet).Draw(t, "tok"))
	}
	return sb.String()
}

func charClasses(s string) int {
	cl := map[string]bool{}
	for _, r := range s {
		switch {
		case r >= 'a' && r <= 'z' || r >= 'A' && r <= 'Z':
			cl["letter"] = true
		case r >= '0' && r <= '9':
			cl["digit"] = true
		case r == ' ' || r == '\t':
			cl["space"] = true
		case strings.ContainsRune("+-", r):
			cl["sign"] = true
		case strings.ContainsRune(":\"~^\\/*?><=", r):
			cl[string(r)] = true
		default:
			cl["other"] = true
		}
	}
	return len(cl)
}

func c17RunQueryString(idx bleve.Index, s string) (ids []string, parseErr, searchErr error) {
	var q *query.QueryStringQuery
	func() {
		defer func() {
			if p := recover(); p != nil {
				parseErr = fmt.Errorf("PANIC in query string parsing: %v", p)
			}
		}()
		q = bleve.NewQueryStringQuery(s)
		if err := q.Validate(); err != nil {
			parseErr = err
			return
		}
		if _, err := q.Parse(); err != nil {
			parseErr = err
		}
	}()
	if parseErr != nil {
		return nil, parseErr, nil
	}
	req := bleve.NewSearchRequestOptions(q, 50, 0, false)
	req.SortBy([]string{"_id"})
	res, err := SearchWatchdog(idx, req)
	if err != nil {
		return nil, nil, err
	}
	return hitIDs(res), nil, nil
}

var c17FixedIdx bleve.Index

func c17Index(t failT) bleve.Index {
	if c17FixedIdx != nil {
		return c17FixedIdx
	}
	idx, err := Config{Engine: EngScorchMem}.Create("", c17Mapping())
	if err != nil {
		t.Fatalf("harness: %v", err)
	}
	docs := []map[string]interface{}{
		{"t": "a ab abc", "k": "ab", "n": 1.0, "d": "2020-01-02T03:04:05Z", "b": true},
		{"t": "b ba", "k": "x", "n": -2.0, "d": "2020-01-03T03:04:05Z"},
		{"t": []interface{}{"cab x", "abd"}, "n": 16.0},
	}
	for i, d := range docs {
		if err := idx.Index(DocIDs[i], d); err != nil {
			t.Fatalf("harness: %v", err)
		}
	}
	c17FixedIdx = idx
	return idx
}

func c17CheckNoise(t failT, s string, ev *Collector) {
	idx := c17Index(t)
	ctxDump = func() string { return fmt.Sprintf("C17 query string %q", s) }
	_, perr, serr := c17RunQueryString(idx, s)
	if perr != nil && strings.HasPrefix(perr.Error(), "PANIC") {
		t.Fatalf("query string %q: %v", s, perr)
	}
	if serr != nil && strings.Contains(serr.Error(), "panicked") {
		t.Fatalf("query string %q parsed but searching with it failed: %v", s, serr)
	}
	if ev != nil {
		cl := []string{"O3-query-string-noise"}
		if perr != nil {
			cl = append(cl, "rejected")
		} else {
			cl = append(cl, "accepted")
		}
		ev.Case(charClasses(s) >= 3, s, s, cl...)
	}
}

func TestC17QueryStringNoise(t *testing.T) {
	ev := Ev("C17")
	checkPropN(t, "C17", 5000, func(t *rapid.T) {
		var s string
		if rapid.IntRange(0, 4).Draw(t, "arbitrary") == 0 {
			s = rapid.String().Draw(t, "s")
		} else {
			s = genQueryStringNoise(t)
		}
		c17CheckNoise(t, s, ev)
	})
}

// FuzzC17QueryString: native coverage-guided fuzzing of O3 (thorough tier).
func FuzzC17QueryString(f *testing.F) {
	for _, s := range []string{"", "+a -b", "t:ab~1^2", "n:>=1", "d:>\"2020-01-02T03:04:05Z\"", "\"a b\"", "t:/ab?/", "a*", "\xff", "~", "^", ":", "\\", "+-+", "n:-1", "a:b:c", "\"", "t:\"", "1e400", "n:>1e400", "^1", "a^", "a~", "a~x"} {
		f.Add(s)
	}
	f.Fuzz(func(t *testing.T, s string) {
		if len(s) > 200 {
			return
		}
		c17CheckNoise(t, s, nil)
	})
}

// ---------------------------------------------------------------- O4 grammar

type qsClause struct {
	Text   string
	Prefix string // "", "+", "-"
	Q      *Q
	// OutsideModel: the clause is compared with the directly constructed query only.  A phrase
	// on the keyword field k is one: k is indexed without term vectors, and phrase queries need
	// positions (documented precondition, the same one query.go's generator respects), so what
	// such a clause matches is not defined by the document contents alone.
	OutsideModel bool
}

// keyword values made of ordinary letters and the characters the query-string syntax reserves
var c17SpecialWords = []string{"C:\\temp", "a:b", "a+b", "a-b", "a b", "x\\y", "1/2", "a\"b", "(a)", "a~1", "a^2", "q?", "s*"}

var c17LiveSpecials []string

func genQSClause(t *rapid.T) qsClause {
	c := qsClause{Prefix: rapid.SampledFrom([]string{"", "", "+", "-"}).Draw(t, "prefix")}
	field := rapid.SampledFrom([]string{"t", "t", "k", ""}).Draw(t, "field")
	scope := ""
	qf := "t" // default field of c17Mapping
	if field != "" {
		scope = field + ":"
		qf = field
	}
	w := func() string { return rapid.SampledFrom(Vocab).Draw(t, "w") }
	clause := rapid.IntRange(0, 13).Draw(t, "clause")
	switch clause {
	case 10, 11:
		// a keyword value with characters of the syntax, each escaped with a backslash
		pool := c17SpecialWords
		if len(c17LiveSpecials) > 0 && rapid.IntRange(0, 3).Draw(t, "liveSpecial") != 0 {
			pool = c17LiveSpecials // values some live document of the corpus actually holds
		}
		x := rapid.SampledFrom(pool).Draw(t, "special")
		var esc strings.Builder
		for _, r := range x {
			if strings.ContainsRune("+-=&|><!(){}[]^\"~*?:\\/ ", r) {
				esc.WriteByte('\\')
			}
			esc.WriteRune(r)
		}
		c.Text, c.Q = "k:"+esc.String(), &Q{Kind: "match", Field: "k", Text: x}
	case 0, 1, 2:
		x := w()
		c.Text, c.Q = scope+x, &Q{Kind: "match", Field: qf, Text: x}
	case 3:
		a, b := w(), w()
		c.Text, c.Q = scope+"\""+a+" "+b+"\"", &Q{Kind: "matchphrase", Field: qf, Text: a + " " + b}
		c.OutsideModel = qf == "k"
	case 4:
		x := w()
		f := rapid.IntRange(1, 2).Draw(t, "fuzz")
		c.Text, c.Q = fmt.Sprintf("%s%s~%d", scope, x, f), &Q{Kind: "match", Field: qf, Text: x, Fuzz: f}
	case 5:
		x := rapid.SampledFrom([]string{"a*", "?b", "ab?", "*"}).Draw(t, "wc")
		c.Text, c.Q = scope+x, &Q{Kind: "wildcard", Field: qf, Text: x}
	case 6:
		x := rapid.SampledFrom([]string{"ab?", "a.*", "[ab]+"}).Draw(t, "re")
		c.Text, c.Q = scope+"/"+x+"/", &Q{Kind: "regexp", Field: qf, Text: x}
	case 7, 8, 12, 13:
		// 12, 13: numbers written with a decimal point only, so that strings with several
		// dotted number tokens (lexer state carried from one token to the next) are common
		pool := []float64{-2, -1, 0, 0.5, 1, 3, 16}
		if clause >= 12 {
			pool = []float64{-1.5, 0.5, 1.25, 2.5, 15.75}
		}
		v := rapid.SampledFrom(pool).Draw(t, "num")
		op := rapid.SampledFrom([]string{">", ">=", "<", "<=", ""}).Draw(t, "op")
		tr, fa := true, false
		q := &Q{Kind: "numrange", Field: "n"}
		switch op {
		case ">":
			q.NMin, q.InclMin = &v, &fa
		case ">=":
			q.NMin, q.InclMin = &v, &tr
		case "<":
			q.NMax, q.InclMax = &v, &fa
		case "<=":
			q.NMax, q.InclMax = &v, &tr
		default:
			q.NMin, q.NMax, q.InclMin, q.InclMax = &v, &v, &tr, &tr
		}
		c.Text, c.Q = "n:"+op+strconv.FormatFloat(v, 'f', -1, 64), q.fix()
	default:
		d := rapid.SampledFrom(wholeSecondDates).Draw(t, "date")
		op := rapid.SampledFrom([]string{">", ">=", "<", "<="}).Draw(t, "dop")
		tr, fa := true, false
		ns := d.UnixNano()
		q := &Q{Kind: "daterange", Field: "d"}
		switch op {
		case ">":
			q.DMin, q.InclMin = &ns, &fa
		case ">=":
			q.DMin, q.InclMin = &ns, &tr
		case "<":
			q.DMax, q.InclMax = &ns, &fa
		default:
			q.DMax, q.InclMax = &ns, &tr
		}
		c.Text, c.Q = "d:"+op+"\""+d.Format(time.RFC3339)+"\"", q
	}
	if rapid.IntRange(0, 4).Draw(t, "boosted") == 0 {
		c.Text += "^" + rapid.SampledFrom([]string{"2", "0.5", "3"}).Draw(t, "boostval")
	}
	c.Text = c.Prefix + c.Text
	return c
}

func TestC17QueryStringGrammar(t *testing.T) {
	ev := Ev("C17")
	checkPropN(t, "C17", 800, func(t *rapid.T) {
		c := BuildCorpus(t, CorpusOpts{Engines: []string{EngScorchMem, EngUDGtreap}, MaxSteps: 5, Mapping: c17Mapping, Doc: DocGenOpts{Nums: SmallNums, Dates: wholeSecondDates, KWords: append(append([]string{}, Vocab...), c17SpecialWords...)}})
		c17LiveSpecials = nil
		for _, id := range c.Model.LiveIDs() {
			if f := c.Model.Docs[id]["k"]; f != nil {
				for _, v := range f.S {
					for _, sp := range c17SpecialWords {
						if v == sp {
							c17LiveSpecials = append(c17LiveSpecials, v)
						}
					}
				}
			}
		}
		sort.Strings(c17LiveSpecials)
		n := rapid.IntRange(1, 4).Draw(t, "nclauses")
		var parts []string
		bq := &Q{Kind: "boolean"}
		prefixes := map[string]bool{}
		scoped, outsideModel := false, false
		for i := 0; i < n; i++ {
			cl := genQSClause(t)
			outsideModel = outsideModel || cl.OutsideModel
			parts = append(parts, cl.Text)
			prefixes[cl.Prefix] = true
			if strings.Contains(cl.Text, ":") {
				scoped = true
			}
			switch cl.Prefix {
			case "+":
				bq.Must = append(bq.Must, cl.Q)
			case "-":
				bq.MustNot = append(bq.MustNot, cl.Q)
			default:
				bq.Should = append(bq.Should, cl.Q)
			}
		}
		bq.fix()
		s := strings.Join(parts, " ")
		// the meaning of a string must not depend on what was parsed before it (the lexers are
		// pooled): parse an arbitrary, often malformed, string first
		polluter, hasPolluter := "", rapid.IntRange(0, 2).Draw(t, "pollute") > 0
		if hasPolluter {
			if rapid.Bool().Draw(t, "hostile") {
				polluter = rapid.SampledFrom(c17Polluters).Draw(t, "polluter")
			} else {
				polluter = genQueryStringNoise(t)
			}
			func() {
				defer func() { _ = recover() }() // panics on arbitrary strings are O3's business
				_, _ = bleve.NewQueryStringQuery(polluter).Parse()
			}()
		}
		ctxDump = func() string { return fmt.Sprintf("C17 grammar string %q (parsed after %q)", s, polluter) }
		got, perr, serr := c17RunQueryString(c.Idx, s)
		if perr != nil {
			t.Fatalf("well-formed query string %q (parsed after %q) rejected: %v", s, polluter, perr)
		}
		if serr != nil {
			t.Fatalf("query string %q: search failed: %v", s, serr)
		}
		want, _, rejected, err := runQuery(c.Idx, bq, searchOpts{}, 50)
		if err != nil || rejected {
			t.Fatalf("constructed query %s: err=%v rejected=%v", bq, err, rejected)
		}
		if strings.Join(got, ",") != strings.Join(want, ",") {
			t.Fatalf("query string %q (parsed after %q) on %s returned %v, the constructed query %s returns %v (docs %v)", s, polluter, c.Cfg, got, bq, want, c.Model.Docs)
		}
		if !outsideModel {
			if msg, _, _ := judge(bq, c.Model, got, uint64(len(got))); msg != "" {
				t.Fatalf("query string %q on %s: %s", s, c.Cfg, msg)
			}
		}
		nt := n >= 2 && len(prefixes) >= 2 && scoped
		cl := []string{"O4-query-string-grammar", "engine:" + c.Cfg.Engine}
		if hasPolluter {
			cl = append(cl, "O4-parsed-after-another-string")
		}
		if len(c17DottedNumber.FindAllString(s, -1)) >= 2 {
			cl = append(cl, "O4-two-or-more-dotted-number-tokens")
		}
		ev.Case(nt, map[string]interface{}{"s": s, "steps": c.Steps}, map[string]interface{}{"string": s, "parsed_after": polluter, "constructed": bq.String(), "hits": got}, cl...)
	})
}

var c17DottedNumber = regexp.MustCompile(`[0-9]+\.[0-9]+`)
