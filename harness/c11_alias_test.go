//go:build verif

package harness

import (
	"fmt"
	"runtime"
	"strings"
	"sync"
	"sync/atomic"
	"testing"
	"time"

	"github.com/blevesearch/bleve/v2"
	"pgregory.net/rapid"
)

// C11 through an index alias (index_alias_impl.go): several goroutines search, read and modify
// an alias of 1-3 member indexes while members are closed, swapped out and in, and the alias
// itself is closed.  Every call must return (no lock may be left held on any path, error paths
// included), nothing may panic, the race detector must stay silent, and Close of the alias must
// complete.

type c11aOp struct {
	Kind   string `json:"kind"`
	Member int    `json:"member,omitempty"`
	Text   string `json:"text,omitempty"`
}

func TestC11Alias(t *testing.T) {
	ev := Ev("C11")
	checkPropN(t, "C11", 120, func(t *rapid.T) {
		nm := rapid.IntRange(1, 3).Draw(t, "nmembers")
		members := make([]bleve.Index, nm+1) // one spare index to swap in
		for i := range members {
			eng := rapid.SampledFrom([]string{EngScorchMem, EngUDGtreap}).Draw(t, "engine")
			idx, err := Config{Engine: eng}.Create("", WorldMapping())
			if err != nil {
				t.Fatalf("create: %v", err)
			}
			_ = idx.Index(DocIDs[i], map[string]interface{}{"t": Vocab[i] + " a"})
			members[i] = idx
		}
		alias := bleve.NewIndexAlias(append([]bleve.Index(nil), members[:nm]...)...) // (a copy: the alias keeps and edits the slice it is given)
		ng := rapid.IntRange(2, 5).Draw(t, "ngoroutines")
		plans := make([][]c11aOp, ng)
		kinds := []string{"search", "search", "doccount", "document", "fielddict", "fielddict", "fields", "index", "closeMember", "swap", "addremove", "stats"}
		for g := range plans {
			for i, n := 0, rapid.IntRange(3, 10).Draw(t, "nops"); i < n; i++ {
				plans[g] = append(plans[g], c11aOp{Kind: rapid.SampledFrom(kinds).Draw(t, "op"), Member: rapid.IntRange(0, nm).Draw(t, "member"), Text: rapid.SampledFrom(Vocab).Draw(t, "text")})
			}
		}
		closer := rapid.IntRange(0, ng-1).Draw(t, "closer")
		closeAt := rapid.IntRange(1, len(plans[closer])).Draw(t, "closeAt")
		procs := rapid.SampledFrom([]int{2, 4, 16}).Draw(t, "gomaxprocs")
		old := runtime.GOMAXPROCS(procs)
		defer runtime.GOMAXPROCS(old)
		var anyClose atomic.Bool // some member or the alias has begun closing: errors are then legitimate
		var problems sync.Map
		var wg sync.WaitGroup
		memberClosed := make([]atomic.Bool, len(members))
		runOp := func(g, i int, op c11aOp) {
			defer func() {
				if p := recover(); p != nil {
					buf := make([]byte, 4096)
					problems.Store(fmt.Sprintf("goroutine %d op %d %s: PANIC %v\n%s", g, i, canonJSON(op), p, buf[:runtime.Stack(buf, false)]), true)
				}
			}()
			var err error
			switch op.Kind {
			case "search":
				q := bleve.NewTermQuery(op.Text)
				q.SetField("t")
				_, err = alias.Search(bleve.NewSearchRequest(q))
			case "doccount":
				_, err = alias.DocCount()
			case "document":
				_, err = alias.Document(DocIDs[op.Member])
			case "fielddict":
				var fd interface{ Close() error }
				d, e := alias.FieldDict("t")
				err = e
				if e == nil && d != nil {
					fd = d
					_, _ = d.Next()
					_ = fd.Close()
				}
			case "fields":
				_, err = alias.Fields()
			case "index":
				err = alias.Index("x"+op.Text, map[string]interface{}{"t": op.Text})
			case "stats":
				_ = alias.StatsMap()
			case "closeMember":
				anyClose.Store(true)
				if !memberClosed[op.Member].Swap(true) {
					err = members[op.Member].Close()
				}
			case "swap":
				alias.Swap([]bleve.Index{members[nm]}, []bleve.Index{members[op.Member%nm]})
			case "addremove":
				alias.Add(members[nm])
				alias.Remove(members[nm])
			}
			if err != nil && !anyClose.Load() && op.Kind != "index" && op.Kind != "document" && op.Kind != "fielddict" && op.Kind != "fields" {
				// (Index, Document, FieldDict and Fields through an alias are defined for exactly one member)
				problems.Store(fmt.Sprintf("goroutine %d op %d %s: unexpected error before anything was closed: %v", g, i, canonJSON(op), err), true)
			}
		}
		for g := range plans {
			wg.Add(1)
			go func(g int) {
				defer wg.Done()
				for i, op := range plans[g] {
					if g == closer && i == closeAt-1 {
						anyClose.Store(true)
						if err := alias.Close(); err != nil {
							problems.Store(fmt.Sprintf("alias Close returned %v", err), true)
						}
					}
					runOp(g, i, op)
				}
			}(g)
		}
		done := make(chan struct{})
		go func() { wg.Wait(); close(done) }()
		select {
		case <-done:
		case <-time.After(60 * time.Second):
			FatalNoShrink(fmt.Sprintf("C11: calls on an index alias did not return within 60s (%d members, plans %s, alias closed by goroutine %d before its op %d); goroutines in bleve:\n%s", nm, canonJSON(plans), closer, closeAt-1, strings.Join(bleveGoroutines(), "\n\n")))
		}
		var msgs []string
		problems.Range(func(k, _ interface{}) bool { msgs = append(msgs, k.(string)); return true })
		for i := range members {
			if !memberClosed[i].Load() {
				func() {
					defer func() {
						if p := recover(); p != nil {
							msgs = append(msgs, fmt.Sprintf("closing member %d (never closed before) panicked: %v", i, p))
						}
					}()
					members[i].Close()
				}()
			}
		}
		if len(msgs) > 0 {
			t.Fatalf("%d members, GOMAXPROCS=%d: %s\nplans %s", nm, procs, strings.Join(msgs, "\n"), canonJSON(plans))
		}
		closedAMember := false
		for i := range memberClosed {
			closedAMember = closedAMember || memberClosed[i].Load()
		}
		cl := []string{"alias", fmt.Sprintf("alias-members:%d", nm)}
		if closedAMember {
			cl = append(cl, "alias-member-closed-under-it")
		}
		ev.Case(ng >= 2 && closedAMember, map[string]interface{}{"nm": nm, "plans": plans, "closer": closer, "closeAt": closeAt, "procs": procs},
			map[string]interface{}{"members": nm, "goroutines": ng, "first_plan": plans[0], "alias_closed_before_op": closeAt - 1, "gomaxprocs": procs}, cl...)
	})
}
