package harness

// Evidence collection.  Each property owns one collector; the test process
// writes all collectors to $VERIF_EVIDENCE_PART (a JSON file) on exit and the
// driver merges the parts of all shards.

import (
	"crypto/sha1"
	"encoding/hex"
	"encoding/json"
	"fmt"
	"os"
	"sort"
	"sync"
)

type Collector struct {
	mu          sync.Mutex
	Property    string         `json:"property_id"`
	Rule        string         `json:"rule"`
	Level       string         `json:"level"`
	Evaluations int            `json:"evaluations"`
	ShrinkExecs int            `json:"shrink_executions"`
	Hashes      []string       `json:"hashes"`
	Samples     []interface{}  `json:"samples"`
	Classes     map[string]int `json:"classes"`
	Excluded    map[string]int `json:"excluded"`
	Known       []string       `json:"known_findings_seen"`
	Assumptions []string       `json:"assumptions"`
	Extra       map[string]any `json:"extra"`
	Exhaustive  bool           `json:"exhaustive"`
	hashSet     map[string]struct{}
	frozen      bool
}

var (
	collectorsMu sync.Mutex
	collectors   = map[string]*Collector{}
)

const maxHashes = 400000

func Ev(prop string) *Collector {
	collectorsMu.Lock()
	defer collectorsMu.Unlock()
	c := collectors[prop]
	if c == nil {
		c = &Collector{Property: prop, Level: "exploration", Classes: map[string]int{}, Excluded: map[string]int{},
			hashSet: map[string]struct{}{}, Extra: map[string]any{}}
		collectors[prop] = c
	}
	return c
}

func (c *Collector) SetRule(r string) {
	c.mu.Lock()
	if c.Rule == "" {
		c.Rule = r
	} else if !containsStr(c.Rule, r) {
		c.Rule += " || " + r
	}
	c.mu.Unlock()
}

func containsStr(a, b string) bool {
	return len(b) <= len(a) && (a == b || indexOf(a, b) >= 0)
}

func indexOf(a, b string) int {
	for i := 0; i+len(b) <= len(a); i++ {
		if a[i:i+len(b)] == b {
			return i
		}
	}
	return -1
}

func (c *Collector) Assume(a string) {
	c.mu.Lock()
	for _, x := range c.Assumptions {
		if x == a {
			c.mu.Unlock()
			return
		}
	}
	c.Assumptions = append(c.Assumptions, a)
	c.mu.Unlock()
}

// Freeze stops counting (called when the first failure is seen: everything
// after it is shrinking).
func (c *Collector) Freeze() {
	c.mu.Lock()
	c.frozen = true
	c.mu.Unlock()
}

// Case records one executed case.  canonical is hashed (canonical JSON) to
// count distinct non-trivial cases; sample is stored for the first few.
func (c *Collector) Case(nontrivial bool, canonical interface{}, sample interface{}, classes ...string) {
	c.mu.Lock()
	defer c.mu.Unlock()
	if c.frozen {
		c.ShrinkExecs++
		return
	}
	c.Evaluations++
	for _, cl := range classes {
		c.Classes[cl]++
	}
	if !nontrivial {
		return
	}
	c.Classes["nontrivial"]++
	h := hashOf(canonical)
	if _, ok := c.hashSet[h]; ok {
		return
	}
	if len(c.hashSet) < maxHashes {
		c.hashSet[h] = struct{}{}
	}
	if len(c.Samples) < 3 && sample != nil {
		c.Samples = append(c.Samples, sample)
	}
}

func (c *Collector) Class(cl string, n int) {
	c.mu.Lock()
	if !c.frozen {
		c.Classes[cl] += n
	}
	c.mu.Unlock()
}

func (c *Collector) Exclude(what string) {
	c.mu.Lock()
	if !c.frozen {
		c.Excluded[what]++
	}
	c.mu.Unlock()
}

func (c *Collector) KnownSeen(key string) {
	c.mu.Lock()
	for _, k := range c.Known {
		if k == key {
			c.mu.Unlock()
			return
		}
	}
	c.Known = append(c.Known, key)
	c.mu.Unlock()
}

func hashOf(v interface{}) string {
	var b []byte
	switch x := v.(type) {
	case string:
		b = []byte(x)
	case []byte:
		b = x
	default:
		b = []byte(canonJSON(v))
	}
	s := sha1.Sum(b)
	return hex.EncodeToString(s[:8])
}

// canonJSON: encoding/json sorts map keys; structs keep declaration order.
func canonJSON(v interface{}) string {
	b, err := json.Marshal(v)
	if err != nil {
		return fmt.Sprintf("%#v", v)
	}
	return string(b)
}

func flushEvidence() {
	path := os.Getenv("VERIF_EVIDENCE_PART")
	if path == "" {
		return
	}
	collectorsMu.Lock()
	defer collectorsMu.Unlock()
	out := map[string]*Collector{}
	for k, c := range collectors {
		c.mu.Lock()
		c.Hashes = c.Hashes[:0]
		for h := range c.hashSet {
			c.Hashes = append(c.Hashes, h)
		}
		sort.Strings(c.Hashes)
		out[k] = c
	}
	b, err := json.Marshal(out)
	for _, c := range collectors {
		c.mu.Unlock()
	}
	if err != nil {
		fmt.Fprintln(os.Stderr, "harness: evidence marshal:", err)
		return
	}
	tmp := path + ".tmp"
	if err := os.WriteFile(tmp, b, 0o644); err == nil {
		os.Rename(tmp, path)
	}
}

// ---------------------------------------------------------------- known findings

type KnownFinding struct {
	Property string `json:"property"`
	Key      string `json:"key"`
	Status   string `json:"status"`
	Commit   string `json:"commit,omitempty"`
	What     string `json:"what"`
}

var (
	knownOnce sync.Once
	knownList []KnownFinding
)

func loadKnown() {
	knownOnce.Do(func() {
		p := os.Getenv("VERIF_KNOWN")
		if p == "" {
			p = "/verif/known_findings.json"
		}
		b, err := os.ReadFile(p)
		if err != nil {
			return
		}
		_ = json.Unmarshal(b, &knownList)
	})
}

// KnownOpen reports whether key is listed as an open finding.
func KnownOpen(prop, key string) (KnownFinding, bool) {
	loadKnown()
	for _, k := range knownList {
		if k.Property == prop && k.Key == key && k.Status == "open" {
			return k, true
		}
	}
	return KnownFinding{}, false
}

// ReportKnown prints the KNOWN-FINDING line once per process per key.
var reportedKnown sync.Map

func ReportKnown(k KnownFinding) {
	if _, dup := reportedKnown.LoadOrStore(k.Property+"/"+k.Key, true); dup {
		return
	}
	fmt.Printf("KNOWN-FINDING: property=%s %s: %s\n", k.Property, k.Key, k.What)
	Ev(k.Property).KnownSeen(k.Key)
}

// ---------------------------------------------------------------- rapid wrapper

// failT is the part of *rapid.T / testing.TB the helpers need.
type failT interface {
	Fatalf(string, ...any)
	Failed() bool
}
