package harness

import (
	"fmt"
	"strings"
	"testing"

	"github.com/blevesearch/bleve/v2"
	"github.com/blevesearch/bleve/v2/search"
	"pgregory.net/rapid"
)

// C09 — searching an alias over shards equals searching one index with all documents.

var c09Sorts = [][]string{{"_id"}, {"-_id"}, {"k", "_id"}, {"-k", "-_id"}, {"-n", "_id"}, {"n", "-_id"}, {"d", "-_id"}, {"b", "k", "_id"}}

func typedSort(spec []string) search.SortOrder {
	var so search.SortOrder
	for _, s := range spec {
		ss := search.ParseSearchSortString(s)
		if sf, ok := ss.(*search.SortField); ok {
			sf.Mode = search.SortFieldMin
			switch sf.Field {
			case "n":
				sf.Type = search.SortFieldAsNumber
			case "d":
				sf.Type = search.SortFieldAsDate
			default:
				sf.Type = search.SortFieldAsString
			}
		}
		so = append(so, ss)
	}
	return so
}

type c09Req struct {
	Q      *Q       `json:"-"`
	QS     string   `json:"query"`
	Sort   []string `json:"sort"`
	Size   int      `json:"size"`
	From   int      `json:"from"`
	Facets []FReq   `json:"facets,omitempty"`
}

func (r c09Req) build(after, before []string) *bleve.SearchRequest {
	req := bleve.NewSearchRequestOptions(r.Q.Bleve(), r.Size, r.From, false)
	req.SortByCustom(typedSort(r.Sort))
	req.Fields = []string{"*"}
	for _, f := range r.Facets {
		req.AddFacet(f.Name, f.Bleve())
	}
	if after != nil {
		req.From = 0
		req.SetSearchAfter(after)
	}
	if before != nil {
		req.From = 0
		req.SetSearchBefore(before)
	}
	return req
}

func TestC09Alias(t *testing.T) {
	ev := Ev("C09")
	ev.SetRule("rapid: corpus (<=8 docs from a generated history), partitioned into 1-4 shards (empty and skewed shards drawn explicitly), shard engines drawn independently (scorch memory / upsidedown gtreap), alias shape in {flat, alias of aliases, single-member alias chain}; " +
		"requests = query tree x score-independent total sort (typed field keys, min mode, + _id) x From/Size page x stored fields * x 0-2 facets with size covering all buckets, plus SearchAfter/SearchBefore from every hit of the full ordering; " +
		"oracle = the same request on one index holding the whole corpus: Total, hit ids in order, stored fields, facets; " +
		"non-trivial = the matching documents live in >=2 shards (the merge decides the page) and the page has From>0 or is cut by Size")
	ev.Assume("scores, MaxScore and score sorts are excluded (idf is per shard, documented); facet sizes cover all buckets")
	checkPropN(t, "C09", 400, func(t *rapid.T) {
		// corpus: final state of a generated history
		ndocs := rapid.IntRange(2, 8).Draw(t, "ndocs")
		var steps []c01Step
		model := NewState()
		for i := 0; i < ndocs; i++ {
			op := Op{Kind: OpIndex, ID: DocIDs[i], Doc: GenDocOpts(t, "doc", DocGenOpts{Nums: SmallNums, Dates: c10Dates})}
			steps = append(steps, c01Step{Kind: "single", Ops: []Op{op}})
			model.Apply([]Op{op})
		}
		ids := model.LiveIDs()
		nsh := rapid.IntRange(1, 4).Draw(t, "nshards")
		assign := map[string]int{}
		mode := rapid.SampledFrom([]string{"random", "skewed", "random", "all-in-last"}).Draw(t, "partition")
		for _, id := range ids {
			switch mode {
			case "skewed":
				if rapid.IntRange(0, 4).Draw(t, "skew") == 0 {
					assign[id] = rapid.IntRange(0, nsh-1).Draw(t, "shard")
				} else {
					assign[id] = 0
				}
			case "all-in-last":
				assign[id] = nsh - 1
			default:
				assign[id] = rapid.IntRange(0, nsh-1).Draw(t, "shard")
			}
		}
		mk := func(label string) bleve.Index {
			eng := rapid.SampledFrom([]string{EngScorchMem, EngUDGtreap}).Draw(t, label+".engine")
			idx, err := Config{Engine: eng}.Create("", WorldMapping())
			if err != nil {
				t.Fatalf("create: %v", err)
			}
			t.Cleanup(func() { idx.Close() })
			return idx
		}
		single := mk("single")
		shards := make([]bleve.Index, nsh)
		counts := make([]int, nsh)
		for i := range shards {
			shards[i] = mk(fmt.Sprintf("shard%d", i))
		}
		// index in history order of final docs (batch per shard)
		for _, id := range ids {
			if err := single.Index(id, model.Docs[id].ToBleve()); err != nil {
				t.Fatalf("index: %v", err)
			}
			if err := shards[assign[id]].Index(id, model.Docs[id].ToBleve()); err != nil {
				t.Fatalf("index: %v", err)
			}
			counts[assign[id]]++
		}
		// alias shape
		shape := rapid.SampledFrom([]string{"flat", "nested", "chain"}).Draw(t, "shape")
		var alias bleve.Index
		switch shape {
		case "flat":
			alias = bleve.NewIndexAlias(shards...)
		case "nested":
			cut := rapid.IntRange(0, nsh).Draw(t, "cut")
			a := bleve.NewIndexAlias(shards[:cut]...)
			b := bleve.NewIndexAlias(shards[cut:]...)
			alias = bleve.NewIndexAlias(a, b)
		default:
			alias = bleve.NewIndexAlias(bleve.NewIndexAlias(bleve.NewIndexAlias(shards...)))
		}
		g := QGen{NoFuzzy: true, Nums: SmallNums, Dates: c10Dates,
			LeafKinds: []string{"all", "all", "all", "term", "prefix", "prefix", "match", "numrange", "bool", "wildcard", "docid", "daterange"}}
		for ri := 0; ri < 4; ri++ {
			r := c09Req{Q: g.Tree(t, fmt.Sprintf("q%d", ri), 2)}
			r.QS = r.Q.String()
			r.Sort = rapid.SampledFrom(c09Sorts).Draw(t, "sort")
			r.Size = rapid.SampledFrom([]int{1, 2, 3, 50}).Draw(t, "size")
			r.From = rapid.SampledFrom([]int{0, 0, 1, 2, 5}).Draw(t, "from")
			nf := rapid.IntRange(0, 2).Draw(t, "nfacets")
			for i := 0; i < nf; i++ {
				f := GenFacet(t, fmt.Sprintf("f%d", i), fmt.Sprintf("f%d", i), SmallNums, c10Dates, func(FReq) int { return 100 })
				f.Size = 100
				r.Facets = append(r.Facets, f)
			}
			if r.build(nil, nil).Validate() != nil {
				continue
			}
			ctxDump = func() string { return fmt.Sprintf("C09 request %s shards %v shape %s", canonJSON(r), assign, shape) }
			cmp := func(what string, req func() *bleve.SearchRequest) (*NormResult, *bleve.SearchResult) {
				sres, err := SearchWatchdog(single, req())
				if err != nil {
					t.Fatalf("%s on the single index: %v (request %s)", what, err, canonJSON(r))
				}
				ares, err := SearchWatchdog(alias, req())
				if err != nil {
					t.Fatalf("%s through the alias: %v (request %s, shards %v)", what, err, canonJSON(r), assign)
				}
				ns, na := Normalize(sres), Normalize(ares)
				if d := DiffNorm(ns, na, NormOpts{IgnoreScores: true, Tol: 1}); d != "" {
					t.Fatalf("%s: single index vs alias(%s, shards %v, sizes %v) differ: %s\n request %s\n docs %v", what, shape, assign, counts, d, canonJSON(r), model.Docs)
				}
				return ns, sres
			}
			page, _ := cmp("page", func() *bleve.SearchRequest { return r.build(nil, nil) })
			// full ordering for search after / before
			full := r
			full.Size, full.From = 50, 0
			_, fres := cmp("full ordering", func() *bleve.SearchRequest { return full.build(nil, nil) })
			psize := r.Size
			if psize > 3 {
				psize = 2
			}
			pr := r
			pr.Size, pr.Facets = psize, nil
			for _, h := range fres.Hits {
				keys := append([]string(nil), h.DecodedSort...)
				cmp(fmt.Sprintf("SearchAfter(%s)", h.ID), func() *bleve.SearchRequest { return pr.build(keys, nil) })
				cmp(fmt.Sprintf("SearchBefore(%s)", h.ID), func() *bleve.SearchRequest { return pr.build(nil, keys) })
			}
			contributing := map[int]bool{}
			for _, h := range fres.Hits { // the shards whose hits compete for the page
				contributing[assign[h.ID]] = true
			}
			nt := len(contributing) >= 2 && (r.From > 0 || int(page.Total) > r.From+r.Size)
			cl := []string{"shape:" + shape, fmt.Sprintf("shards:%d", nsh), "partition:" + mode}
			for _, c := range counts {
				if c == 0 {
					cl = append(cl, "empty-shard")
					break
				}
			}
			if len(r.Facets) > 0 {
				cl = append(cl, "facets")
			}
			if len(fres.Hits) > 0 {
				cl = append(cl, "search-after/before")
			}
			canon := map[string]interface{}{"steps": steps, "assign": assign, "shape": shape, "req": r}
			sample := map[string]interface{}{"docs": len(ids), "assign": assign, "shape": shape, "req": r, "page": idsOf(page), "total": page.Total}
			ev.Case(nt, canon, sample, cl...)
		}
	})
}

var _ = strings.Join
