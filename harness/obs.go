package harness

// Observation of an index through the public API and the model's expectation
// in the same canonical form.

import (
	"encoding/json"
	"fmt"
	"os"
	"runtime/debug"
	"sort"
	"strconv"
	"strings"
	"time"

	"github.com/blevesearch/bleve/v2"
	"github.com/blevesearch/bleve/v2/document"
	index "github.com/blevesearch/bleve_index_api"
)

// StoredFieldsOf renders the stored fields of a retrieved document as a sorted
// multiset of "name|arraypositions|type|value" strings ("_id" ignored).
func StoredFieldsOf(doc index.Document) []string {
	var out []string
	doc.VisitFields(func(f index.Field) {
		if f.Name() == "_id" {
			return
		}
		pos := fmt.Sprint(f.ArrayPositions())
		var typ, val string
		switch x := f.(type) {
		case *document.TextField:
			typ, val = "text", strconv.Quote(x.Text())
		case *document.NumericField:
			n, err := x.Number()
			typ, val = "num", strconv.FormatFloat(n, 'g', -1, 64)
			if err != nil {
				val = "ERR:" + err.Error()
			}
		case *document.DateTimeField:
			tm, _, err := x.DateTime()
			typ, val = "date", strconv.FormatInt(tm.UnixNano(), 10)
			if err != nil {
				val = "ERR:" + err.Error()
			}
		case *document.BooleanField:
			b, err := x.Boolean()
			typ, val = "bool", strconv.FormatBool(b)
			if err != nil {
				val = "ERR:" + err.Error()
			}
		default:
			typ, val = fmt.Sprintf("%T", f), string(f.Value())
		}
		out = append(out, f.Name()+"|"+pos+"|"+typ+"|"+val)
	})
	sort.Strings(out)
	return out
}

// ExpectedStoredFields is the model's rendering in the same form.
func (d Doc) ExpectedStoredFields() []string {
	var out []string
	for name, f := range d {
		n := 0
		var typ string
		var vals []string
		switch {
		case f.S != nil:
			typ = "text"
			for _, s := range f.S {
				vals = append(vals, strconv.Quote(s))
			}
		case f.N != nil:
			typ = "num"
			for _, x := range f.N {
				vals = append(vals, strconv.FormatFloat(x, 'g', -1, 64))
			}
		case f.D != nil:
			typ = "date"
			for _, x := range f.D {
				vals = append(vals, strconv.FormatInt(x, 10))
			}
		case f.B != nil:
			typ = "bool"
			for _, x := range f.B {
				vals = append(vals, strconv.FormatBool(x))
			}
		}
		n = len(vals)
		for i := 0; i < n; i++ {
			pos := "[]"
			if f.IsArray {
				pos = fmt.Sprintf("[%d]", i)
			}
			out = append(out, name+"|"+pos+"|"+typ+"|"+vals[i])
		}
	}
	sort.Strings(out)
	return out
}

// Observed is everything C01 reads back from an index.
type Observed struct {
	DocCount uint64
	Docs     map[string][]string // id -> stored fields; missing key = nil document
	MatchAll []string            // ids in _id order as returned
	MatchTot uint64
	DocIDHit []string
	DocIDTot uint64
	Internal map[string]string // only present keys
	Fields   []string
}

func Observe(idx bleve.Index, ids []string, ikeys []string) (*Observed, error) {
	o := &Observed{Docs: map[string][]string{}, Internal: map[string]string{}}
	var err error
	if o.DocCount, err = idx.DocCount(); err != nil {
		return nil, fmt.Errorf("DocCount: %w", err)
	}
	for _, id := range ids {
		d, err := idx.Document(id)
		if err != nil {
			return nil, fmt.Errorf("Document(%s): %w", id, err)
		}
		if d != nil {
			sf := StoredFieldsOf(d)
			if sf == nil {
				sf = []string{}
			}
			o.Docs[id] = sf
		}
	}
	req := bleve.NewSearchRequestOptions(bleve.NewMatchAllQuery(), len(ids)+12, 0, false)
	req.SortBy([]string{"_id"})
	res, err := idx.Search(req)
	if err != nil {
		return nil, fmt.Errorf("match-all: %w", err)
	}
	for _, h := range res.Hits {
		o.MatchAll = append(o.MatchAll, h.ID)
	}
	o.MatchTot = res.Total
	req = bleve.NewSearchRequestOptions(bleve.NewDocIDQuery(append(append([]string{}, ids...), "zz-absent")), len(ids)+12, 0, false)
	req.SortBy([]string{"_id"})
	res, err = idx.Search(req)
	if err != nil {
		return nil, fmt.Errorf("docid query: %w", err)
	}
	for _, h := range res.Hits {
		o.DocIDHit = append(o.DocIDHit, h.ID)
	}
	o.DocIDTot = res.Total
	for _, k := range ikeys {
		v, err := idx.GetInternal([]byte(k))
		if err != nil {
			return nil, fmt.Errorf("GetInternal(%s): %w", k, err)
		}
		if v != nil {
			o.Internal[k] = string(v)
		}
	}
	if o.Fields, err = idx.Fields(); err != nil {
		return nil, fmt.Errorf("Fields: %w", err)
	}
	sort.Strings(o.Fields)
	return o, nil
}

// DiffModel compares an observation with the model; "" when they agree.
func (o *Observed) DiffModel(m *State, ids []string, ikeys []string) string {
	live := m.LiveIDs()
	if int(o.DocCount) != len(live) {
		return fmt.Sprintf("DocCount=%d, model has %d live ids %v", o.DocCount, len(live), live)
	}
	for _, id := range ids {
		want, ok := m.Docs[id]
		got, gok := o.Docs[id]
		if !ok {
			if gok {
				return fmt.Sprintf("Document(%s) returned %v for an absent id", id, got)
			}
			continue
		}
		if !gok {
			return fmt.Sprintf("Document(%s) returned nil, model has %s", id, want)
		}
		w := want.ExpectedStoredFields()
		if strings.Join(w, "\n") != strings.Join(got, "\n") {
			return fmt.Sprintf("Document(%s) stored fields\n got  %v\n want %v", id, got, w)
		}
	}
	if strings.Join(o.MatchAll, ",") != strings.Join(live, ",") || int(o.MatchTot) != len(live) {
		return fmt.Sprintf("match-all returned %v total %d, model live ids %v", o.MatchAll, o.MatchTot, live)
	}
	if strings.Join(o.DocIDHit, ",") != strings.Join(live, ",") || int(o.DocIDTot) != len(live) {
		return fmt.Sprintf("doc-id query returned %v total %d, model live ids %v", o.DocIDHit, o.DocIDTot, live)
	}
	for _, k := range ikeys {
		want, ok := m.Internal[k]
		got, gok := o.Internal[k]
		if ok != gok || want != got {
			return fmt.Sprintf("GetInternal(%s)=%q present=%v, model %q present=%v", k, got, gok, want, ok)
		}
	}
	have := map[string]bool{}
	for _, f := range o.Fields {
		have[f] = true
	}
	for _, id := range live {
		for name := range m.Docs[id] {
			if !have[name] {
				return fmt.Sprintf("Fields()=%v lacks field %q of live doc %s", o.Fields, name, id)
			}
		}
	}
	return ""
}

// DiffObserved compares two observations of (supposedly) the same logical state.
func (o *Observed) DiffObserved(p *Observed) string {
	a, b := *o, *p
	a.Fields, b.Fields = nil, nil // Fields() may legitimately retain names of deleted docs
	ja, jb := canonJSON(a), canonJSON(b)
	if ja != jb {
		return fmt.Sprintf("observable states differ:\n A %s\n B %s", ja, jb)
	}
	return ""
}

// SearchWatchdog runs a search and reports non-termination (10 s is more than
// 10^4 times the normal cost on these corpora) as an error instead of hanging
// the whole run.  The stuck goroutine is abandoned.
func SearchWatchdog(idx bleve.Index, req *bleve.SearchRequest) (*bleve.SearchResult, error) {
	type out struct {
		res *bleve.SearchResult
		err error
	}
	ch := make(chan out, 1)
	go func() {
		defer func() {
			if p := recover(); p != nil {
				ch <- out{nil, fmt.Errorf("search panicked: %v\n%s", p, debug.Stack())}
			}
		}()
		res, err := idx.Search(req)
		ch <- out{res, err}
	}()
	select {
	case o := <-ch:
		return o.res, o.err
	case <-time.After(searchWatchdogLimit):
		// A stuck search keeps running (and often allocating) in its abandoned goroutine,
		// so the case cannot be shrunk: report it and stop the process.
		b, _ := req.Query.(json.Marshaler).MarshalJSON()
		FatalNoShrink(fmt.Sprintf("search did not return within %v (non-termination): query %s", searchWatchdogLimit, b))
		return nil, fmt.Errorf("unreachable")
	}
}

// FatalNoShrink reports a violation that must not be re-executed (hung or
// memory-eating code under test), flushes the evidence and exits non-zero.
func FatalNoShrink(msg string) {
	fmt.Printf("VERIF-VIOLATION (not shrinkable): %s\n", msg)
	if ctxDump != nil {
		fmt.Printf("context: %s\n", ctxDump())
	}
	flushEvidence()
	os.Exit(1)
}

// ctxDump, when set by the running property, describes the current case.
var ctxDump func() string

var searchWatchdogLimit = 10 * time.Second

// hangLimit bounds calls that must return: a call of the library that never returns is a
// violation of whatever property promises its result, and cannot be shrunk (the abandoned
// goroutine keeps running), so it is reported through FatalNoShrink.
var hangLimit = 120 * time.Second

// Guard runs f and returns its result; if f does not return within hangLimit the run ends
// with a not-shrinkable violation.
func Guard[T any](what string, f func() T) T {
	ch := make(chan T, 1)
	go func() { ch <- f() }()
	select {
	case v := <-ch:
		return v
	case <-time.After(hangLimit):
		FatalNoShrink(fmt.Sprintf("%s did not return within %v", what, hangLimit))
		panic("unreachable")
	}
}
