package harness

import (
	"flag"
	"os"
	"strconv"
	"testing"

	"pgregory.net/rapid"
)

// TestMain: child-mode dispatch (crash / backup workloads re-exec this binary)
// and evidence flush.
func TestMain(m *testing.M) {
	if mode := os.Getenv("VERIF_CHILD"); mode != "" {
		os.Exit(childMain(mode))
	}
	flag.Parse()
	code := m.Run()
	flushEvidence()
	os.Exit(code)
}

func scale() float64 {
	if v := os.Getenv("VERIF_SCALE"); v != "" {
		if f, err := strconv.ParseFloat(v, 64); err == nil && f > 0 {
			return f
		}
	}
	return 1
}

// scaled returns the number of cases for a test whose quick tier runs n cases.
func scaled(n int) int {
	x := int(float64(n) * scale())
	if x < 1 {
		x = 1
	}
	return x
}

// checkPropN runs a rapid property with quickN*VERIF_SCALE cases and freezes the
// evidence counters of prop at the first failing execution (everything after it is
// shrinking).
func checkPropN(t *testing.T, prop string, quickN int, f func(*rapid.T)) {
	t.Helper()
	if os.Getenv("VERIF_CHECKS") == "" {
		_ = flag.Set("rapid.checks", strconv.Itoa(scaled(quickN)))
	} else {
		_ = flag.Set("rapid.checks", os.Getenv("VERIF_CHECKS"))
	}
	rapid.Check(t, func(rt *rapid.T) {
		defer func() {
			if rt.Failed() {
				Ev(prop).Freeze()
			}
		}()
		f(rt)
	})
}
