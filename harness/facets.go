package harness

// Facet requests of the harness and their reference model.

import (
	"fmt"
	"regexp"
	"sort"
	"strings"
	"time"

	"github.com/blevesearch/bleve/v2"
	"github.com/blevesearch/bleve/v2/search"
	"pgregory.net/rapid"
)

type FRange struct {
	Name string   `json:"name"`
	NMin *float64 `json:"nmin,omitempty"`
	NMax *float64 `json:"nmax,omitempty"`
	DMin *int64   `json:"dmin,omitempty"`
	DMax *int64   `json:"dmax,omitempty"`
	// bounds that no int64 nanosecond count can hold (year 1000 / year 9999): every indexable
	// date lies after the one and before the other
	DMinFar bool `json:"dmin_year_1000,omitempty"`
	DMaxFar bool `json:"dmax_year_9999,omitempty"`
}

type FReq struct {
	Name    string   `json:"name"`
	Kind    string   `json:"kind"` // terms | numeric | date
	Field   string   `json:"field"`
	Size    int      `json:"size"`
	Prefix  string   `json:"prefix,omitempty"`
	Pattern string   `json:"pattern,omitempty"`
	Ranges  []FRange `json:"ranges,omitempty"`
}

func (f FReq) Bleve() *bleve.FacetRequest {
	fr := bleve.NewFacetRequest(f.Field, f.Size)
	switch f.Kind {
	case "terms":
		if f.Prefix != "" {
			fr.SetPrefixFilter(f.Prefix)
		}
		if f.Pattern != "" {
			fr.SetRegexFilter(f.Pattern)
		}
	case "numeric":
		for _, r := range f.Ranges {
			fr.AddNumericRange(r.Name, r.NMin, r.NMax)
		}
	case "date":
		for _, r := range f.Ranges {
			var a, b time.Time
			if r.DMin != nil {
				a = time.Unix(0, *r.DMin).UTC()
			}
			if r.DMax != nil {
				b = time.Unix(0, *r.DMax).UTC()
			}
			if r.DMinFar {
				a = time.Date(1000, 1, 1, 0, 0, 0, 0, time.UTC)
			}
			if r.DMaxFar {
				b = time.Date(9999, 12, 31, 23, 59, 59, 0, time.UTC)
			}
			fr.AddDateTimeRange(r.Name, a, b)
		}
	}
	return fr
}

// FExpect is the canonical rendering of a facet result.
type FExpect struct {
	Total   int      `json:"total"`
	Missing int      `json:"missing"`
	Other   int      `json:"other"`
	Buckets []string `json:"buckets"` // "name=count" in result order
}

func distinctStrings(in []string) []string {
	m := map[string]bool{}
	var out []string
	for _, s := range in {
		if !m[s] {
			m[s] = true
			out = append(out, s)
		}
	}
	return out
}

type bucket struct {
	name  string
	count int
}

func rank(counts map[string]int, size int) (out []string, listed int) {
	var bs []bucket
	for k, v := range counts {
		if v > 0 {
			bs = append(bs, bucket{k, v})
		}
	}
	sort.Slice(bs, func(i, j int) bool {
		if bs[i].count != bs[j].count {
			return bs[i].count > bs[j].count
		}
		return bs[i].name < bs[j].name
	})
	if size < len(bs) {
		bs = bs[:size]
	}
	for _, b := range bs {
		out = append(out, fmt.Sprintf("%s=%d", b.name, b.count))
		listed += b.count
	}
	return
}

// Model computes the expected facet result over the given matching docs.
// buckets is the number of distinct buckets with a non-zero count before trimming.
func (f FReq) Model(docs []Doc) (exp FExpect, buckets int) {
	counts := map[string]int{}
	switch f.Kind {
	case "terms":
		var re *regexp.Regexp
		if f.Pattern != "" {
			re = regexp.MustCompile(f.Pattern)
		}
		for _, d := range docs {
			terms := distinctStrings(d.AllTokens(f.Field))
			saw := false
			for _, tm := range terms {
				exp.Total++
				if f.Prefix != "" && !strings.HasPrefix(tm, f.Prefix) {
					continue
				}
				if re != nil && !re.MatchString(tm) {
					continue
				}
				saw = true
				counts[tm]++
			}
			if !saw {
				exp.Missing++
			}
		}
	case "numeric":
		for _, d := range docs {
			fl := d[f.Field]
			if fl == nil || len(fl.N) == 0 {
				exp.Missing++
				continue
			}
			seen := map[float64]bool{}
			for _, v := range fl.N {
				if seen[v] {
					continue
				}
				seen[v] = true
				for _, r := range f.Ranges {
					if (r.NMin == nil || v >= *r.NMin) && (r.NMax == nil || v < *r.NMax) {
						counts[r.Name]++
						exp.Total++
					}
				}
			}
		}
	case "date":
		for _, d := range docs {
			fl := d[f.Field]
			if fl == nil || len(fl.D) == 0 {
				exp.Missing++
				continue
			}
			seen := map[int64]bool{}
			for _, v := range fl.D {
				if seen[v] {
					continue
				}
				seen[v] = true
				for _, r := range f.Ranges {
					if (r.DMin == nil || v >= *r.DMin) && (r.DMax == nil || v < *r.DMax) {
						counts[r.Name]++
						exp.Total++
					}
				}
			}
		}
	}
	for _, v := range counts {
		if v > 0 {
			buckets++
		}
	}
	var listed int
	exp.Buckets, listed = rank(counts, f.Size)
	exp.Other = exp.Total - listed
	return
}

// RenderFacet converts a bleve facet result to the canonical form.
func RenderFacet(fr *search.FacetResult) FExpect {
	e := FExpect{Total: fr.Total, Missing: fr.Missing, Other: fr.Other}
	if fr.Terms != nil {
		for _, t := range fr.Terms.Terms() {
			e.Buckets = append(e.Buckets, fmt.Sprintf("%s=%d", t.Term, t.Count))
		}
	}
	for _, r := range fr.NumericRanges {
		e.Buckets = append(e.Buckets, fmt.Sprintf("%s=%d", r.Name, r.Count))
	}
	for _, r := range fr.DateRanges {
		e.Buckets = append(e.Buckets, fmt.Sprintf("%s=%d", r.Name, r.Count))
	}
	return e
}

func (e FExpect) String() string { return canonJSON(e) }

// GenFacet draws one facet request.  nbuckets tells the generator how many
// distinct terms exist so sizes around that number are drawn.
func GenFacet(t *rapid.T, label string, name string, nums []float64, dates []time.Time, bucketsOf func(FReq) int) FReq {
	f := FReq{Name: name}
	switch rapid.IntRange(0, 3).Draw(t, label+".kind") {
	case 0, 1:
		f.Kind = "terms"
		f.Field = rapid.SampledFrom([]string{"k", "k", "t"}).Draw(t, label+".field")
		switch rapid.IntRange(0, 5).Draw(t, label+".filter") {
		case 0:
			f.Prefix = rapid.SampledFrom([]string{"a", "ab", "x", "b"}).Draw(t, label+".prefix")
		case 1:
			f.Pattern = rapid.SampledFrom([]string{"^a.*", "b$", "^ab[cd]$", "a"}).Draw(t, label+".pattern")
		case 2:
			// both filters at once (a term must pass both)
			f.Prefix = rapid.SampledFrom([]string{"a", "ab", "x", "b"}).Draw(t, label+".prefix")
			f.Pattern = rapid.SampledFrom([]string{"^a.*", "b$", "^ab[cd]$", "a", "c"}).Draw(t, label+".pattern")
		}
		nb := bucketsOf(f)
		f.Size = rapid.SampledFrom([]int{0, 1, nb - 1, nb, nb + 3}).Draw(t, label+".size")
		if f.Size < 0 {
			f.Size = 0
		}
	case 2:
		f.Kind = "numeric"
		f.Field = "n"
		n := rapid.IntRange(1, 3).Draw(t, label+".nranges")
		for i := 0; i < n; i++ {
			r := FRange{Name: fmt.Sprintf("r%d", i)}
			if rapid.IntRange(0, 3).Draw(t, label+".openmin") != 0 {
				v := rapid.SampledFrom(nums).Draw(t, label+".min")
				r.NMin = &v
			}
			if r.NMin == nil || rapid.IntRange(0, 3).Draw(t, label+".openmax") != 0 {
				v := rapid.SampledFrom(nums).Draw(t, label+".max")
				r.NMax = &v
			}
			f.Ranges = append(f.Ranges, r)
		}
		f.Size = rapid.SampledFrom([]int{1, 2, 5}).Draw(t, label+".size")
	default:
		f.Kind = "date"
		f.Field = "d"
		n := rapid.IntRange(1, 3).Draw(t, label+".nranges")
		for i := 0; i < n; i++ {
			r := FRange{Name: fmt.Sprintf("r%d", i)}
			if rapid.IntRange(0, 3).Draw(t, label+".openmin") != 0 {
				v := rapid.SampledFrom(dates).Draw(t, label+".min").UnixNano()
				r.DMin = &v
			}
			if r.DMin == nil || rapid.IntRange(0, 3).Draw(t, label+".openmax") != 0 {
				v := rapid.SampledFrom(dates).Draw(t, label+".max").UnixNano()
				r.DMax = &v
			}
			switch rapid.IntRange(0, 9).Draw(t, label+".far") {
			case 0:
				r.DMin, r.DMinFar = nil, true
			case 1:
				r.DMax, r.DMaxFar = nil, true
			}
			f.Ranges = append(f.Ranges, r)
		}
		f.Size = rapid.SampledFrom([]int{1, 2, 5}).Draw(t, label+".size")
	}
	return f
}
