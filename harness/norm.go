package harness

// Normalisation and comparison of search results between two executions.

import (
	"fmt"
	"math"
	"sort"
	"strings"

	"github.com/blevesearch/bleve/v2"
	"github.com/blevesearch/bleve/v2/search"
)

type NormHit struct {
	ID        string              `json:"id"`
	Score     float64             `json:"score"`
	Sort      []string            `json:"sort"`
	Fields    string              `json:"fields"`
	Locations []string            `json:"locations"`
	Fragments map[string][]string `json:"fragments,omitempty"`
}

type NormResult struct {
	Total    uint64             `json:"total"`
	MaxScore float64            `json:"max_score"`
	Hits     []NormHit          `json:"hits"`
	Facets   map[string]FExpect `json:"facets,omitempty"`
}

func normLocations(fl search.FieldTermLocationMap) []string {
	var out []string
	for field, tl := range fl {
		for term, locs := range tl {
			for _, l := range locs {
				out = append(out, fmt.Sprintf("%s/%s@%d[%d:%d]%v", field, term, l.Pos, l.Start, l.End, []uint64(l.ArrayPositions)))
			}
		}
	}
	sort.Strings(out)
	return out
}

func Normalize(res *bleve.SearchResult) *NormResult {
	n := &NormResult{Total: res.Total, MaxScore: res.MaxScore}
	for _, h := range res.Hits {
		nh := NormHit{ID: h.ID, Score: h.Score, Sort: append([]string(nil), h.Sort...)}
		nh.Fields = canonJSON(h.Fields)
		nh.Locations = normLocations(h.Locations)
		if len(h.Fragments) > 0 {
			nh.Fragments = map[string][]string{}
			for k, v := range h.Fragments {
				nh.Fragments[k] = v
			}
		}
		n.Hits = append(n.Hits, nh)
	}
	if len(res.Facets) > 0 {
		n.Facets = map[string]FExpect{}
		for name, fr := range res.Facets {
			n.Facets[name] = RenderFacet(fr)
		}
	}
	return n
}

func floatClose(a, b, tol float64) bool {
	if a == b {
		return true
	}
	d := math.Abs(a - b)
	m := math.Max(math.Abs(a), math.Abs(b))
	return d <= tol*m || d <= 1e-300
}

type NormOpts struct {
	Tol            float64
	IgnoreScores   bool                            // alias checks: idf is per shard
	ScoreSorted    bool                            // order may differ between hits whose scores are within Tol
	FragmentFields func(id string) map[string]bool // fields whose fragments are compared (nil = all)
	IgnoreSortKeys bool
}

// DiffNorm returns "" when the two results are equivalent under the options.
func DiffNorm(a, b *NormResult, o NormOpts) string {
	if a.Total != b.Total {
		return fmt.Sprintf("Total %d vs %d", a.Total, b.Total)
	}
	if len(a.Hits) != len(b.Hits) {
		return fmt.Sprintf("%d hits vs %d hits", len(a.Hits), len(b.Hits))
	}
	if !o.IgnoreScores && !floatClose(a.MaxScore, b.MaxScore, o.Tol) {
		return fmt.Sprintf("MaxScore %v vs %v", a.MaxScore, b.MaxScore)
	}
	bi := map[string]int{}
	for i, h := range b.Hits {
		bi[h.ID] = i
	}
	for i, ha := range a.Hits {
		j, ok := bi[ha.ID]
		if !ok {
			return fmt.Sprintf("hit %s only in the first result (ids %v vs %v)", ha.ID, idsOf(a), idsOf(b))
		}
		hb := b.Hits[j]
		if i != j {
			// tolerated only for score-sorted requests between hits of (nearly) equal score
			if !(o.ScoreSorted && floatClose(ha.Score, a.Hits[j].Score, o.Tol*10)) {
				return fmt.Sprintf("order differs: %v vs %v", idsOf(a), idsOf(b))
			}
		}
		if !o.IgnoreScores && !floatClose(ha.Score, hb.Score, o.Tol) {
			return fmt.Sprintf("score of %s: %v vs %v", ha.ID, ha.Score, hb.Score)
		}
		if ha.Fields != hb.Fields {
			return fmt.Sprintf("fields of %s: %s vs %s", ha.ID, ha.Fields, hb.Fields)
		}
		if strings.Join(ha.Locations, ";") != strings.Join(hb.Locations, ";") {
			return fmt.Sprintf("locations of %s: %v vs %v", ha.ID, ha.Locations, hb.Locations)
		}
		if !o.IgnoreSortKeys && !o.ScoreSorted && strings.Join(ha.Sort, "\x01") != strings.Join(hb.Sort, "\x01") {
			return fmt.Sprintf("sort keys of %s: %q vs %q", ha.ID, ha.Sort, hb.Sort)
		}
		var ff map[string]bool
		if o.FragmentFields != nil {
			ff = o.FragmentFields(ha.ID)
		}
		for f, fa := range ha.Fragments {
			if ff != nil && !ff[f] {
				continue
			}
			if strings.Join(fa, "\x01") != strings.Join(hb.Fragments[f], "\x01") {
				return fmt.Sprintf("fragments of %s.%s: %q vs %q", ha.ID, f, fa, hb.Fragments[f])
			}
		}
		for f := range hb.Fragments {
			if ff != nil && !ff[f] {
				continue
			}
			if _, ok := ha.Fragments[f]; !ok {
				return fmt.Sprintf("fragments of %s.%s only in the second result", ha.ID, f)
			}
		}
	}
	if canonJSON(a.Facets) != canonJSON(b.Facets) {
		return fmt.Sprintf("facets %s vs %s", canonJSON(a.Facets), canonJSON(b.Facets))
	}
	return ""
}

func idsOf(n *NormResult) []string {
	var ids []string
	for _, h := range n.Hits {
		ids = append(ids, h.ID)
	}
	return ids
}
