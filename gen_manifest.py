#!/usr/bin/env python3
"""Writes MANIFEST.json from the table below (kept as a script so the file stays valid)."""
import json, os
ROOT = os.path.dirname(os.path.abspath(__file__))
CHECKS = json.load(open(os.path.join(ROOT, "manifest_checks.json")))
props = [json.loads(l)["id"] for l in open(os.path.join(ROOT, "properties.jsonl"))]
checks, na = [], []
for pid in props:
    c = CHECKS.get(pid)
    if not c or c.get("not_applicable"):
        na.append(dict(property_id=pid, reason=(c or {}).get("not_applicable", "check not built yet in this session (design in DESIGN.md section 4)")))
        continue
    checks.append(dict(
        property_id=pid,
        quick_cmd="./check %s quick" % pid,
        thorough_cmd="./check %s thorough" % pid,
        evidence_file="evidence/%s.json" % pid,
        replay_cmd_template="./check --replay {path}",
        engine="harness",
        level_claimed=dict(category=c["category"], text=c["text"], design_ref="DESIGN.md section 4 " + pid),
        level_note=c["note"],
        technique=c["technique"]))
hooks = json.load(open(os.path.join(ROOT, "manifest_hooks.json")))
m = dict(version=1, setup_cmd="./setup.sh", hooks=hooks,
         engines=[dict(name="harness", path="harness", serves_properties=[c["property_id"] for c in checks],
                       kind_free_text="Go test binary (rapid v1.3.0 property tests + native fuzz targets) built from /repo's working tree with -tags verif; driver ./check")],
         checks=checks, not_applicable=na,
         notes="All checks are property-based tests / fuzzers with explicit oracles; see DESIGN.md. known findings: known_findings.json")
json.dump(m, open(os.path.join(ROOT, "MANIFEST.json"), "w"), indent=1)
print("claimed", len(checks), "not_applicable", len(na))
